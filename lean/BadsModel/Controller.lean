/-
  Control skeleton of `BADS.optimize` (bads.py l.1182-1426), `_poll_step_`'s loop guard and
  mesh update (l.1919-1926, l.2144-2241) and `_check_mesh_overflow_`.

  Everything numerical is ORACLE input, one `Out` per loop iteration:
   * the search step's outcome (only consulted when the code runs a search),
   * the poll step's per-evaluation improvements `zs` (as returned by `_eval_improvement_`),
     how many of those evaluations created a new log row, the success threshold `thr`
     and the two stall tests.
  What the code DECIDES from these is computed here: whether a search / a poll runs, the
  counters, the mesh exponents, termination and its message.
-/
namespace Bads.Ctl

structure Opts where
  D : Nat
  nTry : Nat          -- search_n_try
  budget : Nat        -- options['max_fun_evals'] as the loop sees it (after the noisy reserve)
  maxIter : Nat       -- options['max_iter']
  skip : Bool         -- skip_poll_after_search
  cap : Int           -- max_poll_grid_number
  sgm : Int           -- search_grid_multiplier
  sgn : Int           -- search_grid_number
  locked : Bool       -- search_size_locked
  accel : Bool        -- accelerate_mesh
  accelSteps : Nat    -- accelerate_mesh_steps
  stallIters : Nat    -- tol_stall_iters
  tolExp : Int        -- optim_state['tol_mesh'] = 2 ^ tolExp
  expand : Nat        -- search_mesh_expand
  incr : Int          -- search_mesh_increment
deriving Repr

inductive Msg where
  | none | maxEvals | maxIter | tolMesh | tolFun
deriving DecidableEq, Repr

/-- Counters and termination state. -/
structure CSt where
  fc : Nat            -- function_logger.func_count
  nRec : Nat          -- number of recorded log rows (sum of X_flag)
  sc : Nat            -- optim_state['search_count']
  ss : Nat            -- search_success
  pollIter : Nat      -- poll_iteration
  finished : Bool
  msg : Msg
deriving Repr

/-- Mesh state. -/
structure MSt where
  msi : Int           -- mesh_size_integer
  ssi : Int           -- optim_state['search_size_integer']
  spree : Nat         -- search_spree
  overflows : Nat     -- mesh_overflows
deriving Repr

structure St where
  c : CSt
  m : MSt
deriving Repr

inductive Status where
  | failure | incremental | success
deriving DecidableEq, Repr

inductive SOut where
  | empty                                   -- the filtered search set was empty: nothing evaluated
  | eval (newRow : Bool) (st : Status)      -- one evaluation; did it create a new log row; judged status
deriving Repr

/-- Oracle input of one loop iteration. -/
structure Out where
  search : SOut
  zs : List Rat        -- per-evaluation poll improvements offered, in evaluation order
  newRows : Nat        -- how many poll evaluations created a new log row
  thr : Rat            -- sufficient_improvement of this iteration
  stallMesh : Bool     -- accelerate-mesh stall test (f_q_historic_improvement < tol_fun) inside the poll
  stallStop : Bool     -- termination stall test at the end of the iteration
deriving Repr

/-- What the counters' update needs to know of an iteration's outcome. -/
structure COut where
  search : SOut
  nz : Nat             -- number of poll evaluations offered
  newRows : Nat
  meshStop : Bool      -- mesh_size < tol_mesh at the end of the iteration
  stallStop : Bool
deriving Repr

def b2n (b : Bool) : Nat := if b then 1 else 0

/-- `do_search_step_flag` (l.1229-1233). -/
def doSearch (o : Opts) (c : CSt) : Bool := decide (c.sc < o.nTry) && decide (c.nRec > o.D)

/-- Effect of `_search_step_` on the counters. -/
def cAfterSearch (o : Opts) (c : CSt) (search : SOut) : CSt :=
  if doSearch o c then
    match search with
    | .empty => { c with sc := c.sc + 1 }
    | .eval nr st =>
      { c with sc := c.sc + 1, fc := c.fc + 1, nRec := c.nRec + b2n nr,
               ss := c.ss + (if st = .success then 1 else 0) }
  else c

/-- l.1247-1251: end of a round of searches (or no search at all). -/
def atEnd (o : Opts) (c1 : CSt) : Bool := c1.sc == 0 || c1.sc == o.nTry
/-- l.1254-1257 -/
def skipPoll (o : Opts) (c1 : CSt) : Bool := atEnd o c1 && decide (c1.ss > 0) && o.skip
def doPoll (o : Opts) (c1 : CSt) : Bool := atEnd o c1 && !skipPoll o c1
def cReset (o : Opts) (c1 : CSt) : CSt := if atEnd o c1 then { c1 with sc := 0, ss := 0 } else c1

/-- Number of poll evaluations the loop guard allows (l.1919-1926). -/
def nEvals (o : Opts) (fc nz : Nat) : Nat := min nz (min (2 * o.D) (o.budget - fc))

/-- One loop iteration, counters and termination only. -/
def cstep (o : Opts) (c : CSt) (co : COut) : CSt :=
  let c1 := cAfterSearch o c co.search
  let c2 := cReset o c1
  let e := nEvals o c2.fc co.nz
  let c3 : CSt := if doPoll o c1 then { c2 with fc := c2.fc + e, nRec := c2.nRec + min co.newRows e } else c2
  -- l.1299-1337: termination tests, in the code's order (the last one that fires names the message)
  let t1 := decide (c3.fc ≥ o.budget)
  let t2 := decide (c3.pollIter + 1 ≥ o.maxIter)
  let t3 := co.meshStop
  let t4 := decide (c3.pollIter + 1 > o.stallIters) && co.stallStop
  let fin := t1 || t2 || t3 || t4
  let msg := if t4 then Msg.tolFun else if t3 then Msg.tolMesh else if t2 then Msg.maxIter
             else if t1 then Msg.maxEvals else Msg.none
  { c3 with finished := fin, msg := msg,
            pollIter := if !fin && doPoll o c1 then c3.pollIter + 1 else c3.pollIter }

/-- The running-best loop of the poll (l.2114-2126): `certain_good_poll` after all evaluations. -/
def pollGood (thr : Rat) : List Rat → Rat → Bool → Bool
  | [], _, good => good
  | z :: zs, best, good =>
    if z > best then pollGood thr zs z (decide (z > thr)) else pollGood thr zs best good

/-- `_check_mesh_overflow_`. -/
def overflowBump (o : Opts) (msi : Int) (n : Nat) : Nat := if msi = o.cap then n + 1 else n

/-- Mesh update at the end of `_poll_step_` (l.2173-2231). -/
def pollMesh (o : Opts) (m : MSt) (pollIter : Nat) (good stall : Bool) : MSt :=
  if good then
    { m with overflows := overflowBump o m.msi m.overflows, msi := min (m.msi + 1) o.cap }
  else
    let m1 := m.msi - 1
    let m2 := if o.accel && decide (pollIter > o.accelSteps) && stall then m1 - 1 else m1
    { m with msi := m2, ssi := min m.ssi (m2 * o.sgm - o.sgn) }

/-- l.1196-1202: locked search mesh size recomputed from the poll mesh size at loop start. -/
def meshLoopStart (o : Opts) (m : MSt) : MSt :=
  if o.locked then { m with ssi := min 0 (m.msi * o.sgm - o.sgn) } else m

/-- l.1258-1275: a skipped poll extends the search spree (and may expand the mesh when
    `search_mesh_expand > 0`; 0 by default). -/
def meshSkip (o : Opts) (m : MSt) : MSt :=
  let spree := m.spree + 1
  let expandNow := decide (o.expand > 0) && decide (spree % o.expand = 0) && decide (o.incr > 0)
  { m with spree := spree,
           overflows := if expandNow then overflowBump o m.msi m.overflows else m.overflows,
           msi := if expandNow then min (m.msi + o.incr) o.cap else m.msi }

/-- Mesh state at the end of the iteration. -/
def mstep (o : Opts) (s : St) (out : Out) : MSt :=
  let c1 := cAfterSearch o s.c out.search
  let m0 := meshLoopStart o s.m
  let m1 := if skipPoll o c1 then meshSkip o m0 else if atEnd o c1 then { m0 with spree := 0 } else m0
  let c2 := cReset o c1
  let e := nEvals o c2.fc out.zs.length
  let good := pollGood out.thr (out.zs.take e) 0 false
  if doPoll o c1 then pollMesh o m1 s.c.pollIter good out.stallMesh else m1

def coutOf (o : Opts) (s : St) (out : Out) : COut :=
  { search := out.search, nz := out.zs.length, newRows := out.newRows,
    meshStop := decide ((mstep o s out).msi < o.tolExp), stallStop := out.stallStop }

/-- One iteration of the `while not is_finished` loop. -/
def step (o : Opts) (s : St) (out : Out) : St :=
  { c := cstep o s.c (coutOf o s out), m := mstep o s out }

/-- Did this iteration run a search / a poll?  (Observable: whether `_search_step_` /
    `_poll_step_` were entered.) -/
def ranSearch (o : Opts) (s : St) : Bool := doSearch o s.c
def ranPoll (o : Opts) (s : St) (out : Out) : Bool := doPoll o (cAfterSearch o s.c out.search)

/-- State when the loop is entered: `search_count = search_n_try` (skip search at first
    iteration), `poll_iteration = 0`. -/
def init (o : Opts) (fc0 nRec0 : Nat) (msi0 : Int) : St :=
  { c := { fc := fc0, nRec := nRec0, sc := o.nTry, ss := 0, pollIter := 0, finished := false, msg := .none },
    m := { msi := msi0, ssi := min 0 (msi0 * o.sgm - o.sgn), spree := 0, overflows := 0 } }

/-- Run the full model against an oracle stream. -/
def run (o : Opts) (oracle : Nat → Out) : Nat → St → St
  | 0, s => s
  | n + 1, s => if s.c.finished then s else run o (fun k => oracle (k + 1)) n (step o s (oracle 0))

/-- Run over a finite list of outcomes, returning every intermediate state. -/
def trace (o : Opts) : List Out → St → List St
  | [], _ => []
  | out :: outs, s => let s' := step o s out; s' :: trace o outs s'

/-- The termination message names a condition that holds in the final state. -/
def msgSound (o : Opts) (c : CSt) (meshStop stallStop : Bool) : Bool :=
  match c.msg with
  | .none => !c.finished
  | .maxEvals => decide (c.fc ≥ o.budget)
  | .maxIter => decide (c.pollIter + 1 ≥ o.maxIter)
  | .tolMesh => meshStop
  | .tolFun => decide (c.pollIter + 1 > o.stallIters) && stallStop

end Bads.Ctl
