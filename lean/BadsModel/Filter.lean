/-
  `constraints_check.contraints_check`, transcribed as coded, and the documented
  behaviour it is meant to have (`filterSpec`).

  Steps of the code:
   1. box stage: project every row onto `[lo, hi]` (`proj`) or drop rows outside it;
   2. `np.unique(axis=0, return_index)` + `np.sort(idx)`: remove exact duplicate rows,
      keeping first occurrences in their original order;
   3. "remove previously evaluated vectors": keys `round(row / (tol/2))` of the candidates
      stacked on top of the keys of the log; `np.unique(axis=0, return_index)` returns, for
      each distinct key in lexicographic order, the index of its FIRST occurrence in the
      stack; rows with index `< len(candidates)` are kept, in that (lexicographic) order.
      Since the candidates come first in the stack, a key that also occurs in the log still
      has its first occurrence among the candidates - the log never removes anything;
   4. constraint stage: keep rows whose constraint value is `<= 0`.
-/
import BadsModel.Num
namespace Bads

/-- Rounded key of a point at resolution `t` (`np.round(U / t)`). -/
def keyOf (t : Rat) (p : Pt) : List Int := p.map (fun x => roundHE (x / t))

/-- Lexicographic `≤` on integer rows of equal length (row order of `np.unique(axis=0)`). -/
def lexLe : List Int → List Int → Bool
  | [], _ => true
  | _ :: _, [] => false
  | a :: as, b :: bs => if a < b then true else if b < a then false else lexLe as bs

def clampPt : List Ext → List Ext → Pt → Pt
  | l :: lo, h :: hi, x :: p => clampE l h x :: clampPt lo hi p
  | _, _, _ => []

/-- Step 1. -/
def boxStage (proj : Bool) (lo hi : List Ext) (U : List Pt) : List Pt :=
  if proj then U.map (clampPt lo hi) else U.filter (inBoxB lo hi)

/-- Keep the first occurrence of every value of `f`, preserving order. -/
def dedupBy {α β : Type} [DecidableEq β] (f : α → β) : List α → List β → List α
  | [], _ => []
  | a :: as, seen =>
    if f a ∈ seen then dedupBy f as seen else a :: dedupBy f as (f a :: seen)

/-- Insertion sort (structural, so that the kernel can evaluate it). -/
def insertBy {α : Type} (le : α → α → Bool) (a : α) : List α → List α
  | [] => [a]
  | b :: bs => if le a b then a :: b :: bs else b :: insertBy le a bs

def sortBy {α : Type} (le : α → α → Bool) : List α → List α
  | [] => []
  | a :: as => insertBy le a (sortBy le as)

/-- Step 2. -/
def dedupRows (U : List Pt) : List Pt := dedupBy (fun p => p) U []

/-- Step 3, as coded.  `logX` is accepted and ignored, exactly as the code's index test does. -/
def keyStage (t : Rat) (U : List Pt) (_logX : List Pt) : List Pt :=
  sortBy (fun p q => lexLe (keyOf t p) (keyOf t q)) (dedupBy (keyOf t) U [])

/-- Step 4: `cons p = true` means the constraint function reports a violation at `p`. -/
def consStage (cons : Option (Pt → Bool)) (U : List Pt) : List Pt :=
  match cons with
  | none => U
  | some c => U.filter (fun p => !c p)

structure FilterIn where
  U : List Pt
  lo : List Ext
  hi : List Ext
  tolMesh : Rat
  logX : List Pt
  proj : Bool
  cons : Option (Pt → Bool)

/-- `contraints_check` as coded.  (`U_new.size > 0` guard: on an empty set step 3 is the identity.) -/
def filterCode (I : FilterIn) : List Pt :=
  let U1 := dedupRows (boxStage I.proj I.lo I.hi I.U)
  let U2 := keyStage (I.tolMesh / 2) U1 I.logX
  consStage I.cons U2

/-- Documented step 3: additionally drop rows whose key occurs in the log. -/
def keyStageSpec (t : Rat) (U : List Pt) (logX : List Pt) : List Pt :=
  sortBy (fun p q => lexLe (keyOf t p) (keyOf t q))
    ((dedupBy (keyOf t) U []).filter (fun p => !((logX.map (keyOf t)).contains (keyOf t p))))

/-- What the docstring/comment promises ("Remove previously evaluated vectors (within tol_mesh)"). -/
def filterSpec (I : FilterIn) : List Pt :=
  let U1 := dedupRows (boxStage I.proj I.lo I.hi I.U)
  let U2 := keyStageSpec (I.tolMesh / 2) U1 I.logX
  consStage I.cons U2

/-! Decidable output predicates (evaluated on the implementation's observed outputs). -/

def allInBox (lo hi : List Ext) (out : List Pt) : Bool := out.all (inBoxB lo hi)
def keysDistinct (t : Rat) (out : List Pt) : Bool := decide ((out.map (keyOf t)).Nodup)
def noneInLog (t : Rat) (out logX : List Pt) : Bool :=
  out.all (fun p => !((logX.map (keyOf t)).contains (keyOf t p)))
def allFeasible (c : Pt → Bool) (out : List Pt) : Bool := out.all (fun p => !c p)

end Bads
