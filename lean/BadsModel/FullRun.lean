/-
  One model of a whole run of `BADS.optimize()` in ANY noise mode, composed of

    * `Ctl`   - which steps run, counters, mesh exponents, termination (Controller.lean),
    * `Pipe`  - which points reach the target: rows of filtered candidate sets (Pipeline.lean, Filter.lean),
    * `Noisy` - incumbent, recorded iterates, re-estimation and swap (Noisy.lean).

  What ties them together, and is therefore no longer an oracle input of the components:
    * the evaluated POINTS of the incumbent logic are the rows the pipeline picks from the filtered sets,
    * the IMPROVEMENTS the controller judges (`zs`, the search status) are the binary64 differences between the
      incumbent estimate and the estimate at the evaluated point (`_eval_improvement_` with `q = 0.5`),
    * the history INDEX at which an iterate is recorded is the controller's `poll_iteration`, and the `finished`
      flag is the controller's.

  ORACLE per loop iteration (`Orc`): candidate sets, acquisition ranking (which survivor / in which order), for
  every evaluated point the value the logger returned and the GP estimate `(f, sd)` there (for deterministic
  targets `f = y`, `sd = 0`) and whether the logger created a new row, the success threshold, the stall tests,
  and the re-estimated `(fval, fsd)` of the recorded iterates when the re-evaluation block runs.
-/
import BadsModel.Controller
import BadsModel.Pipeline
import BadsModel.Noisy
import BadsModel.Fl
namespace Bads.Full

structure Env where
  pipe : Pipe.Env
  o : Ctl.Opts
  tolFun : Rat

/-- oracle values at one evaluated point -/
structure Val where
  y : Rat
  f : Rat
  sd : Rat
  newRow : Bool
deriving Repr

structure St where
  pairs : List (Pt × Rat)    -- every (point, returned value) of the run so far, in call order
  ns : Noisy.St
  ctl : Ctl.St
deriving Repr

structure Orc where
  h : Rat
  searchU : List Pt
  searchPick : Nat
  searchVal : Option Val
  pollU : List Pt
  pollOrder : List Nat
  pollVals : List Val
  thr : Rat
  stallMesh : Bool
  stallStop : Bool
  reVals : Option (List (Rat × Rat))

def pts (s : St) : List Pt := s.pairs.map (·.1)

/-- `_eval_improvement_` with the default quantile: the binary64 difference of the two estimates -/
def impr (fbase fnew : Rat) : Rat := Fl.sub fbase fnew

def status (z thr : Rat) : Ctl.Status := if z > thr then .success else if z > 0 then .incremental else .failure

def mkCand (u : Pt) (v : Val) : Noisy.Cand := { u := u, y := v.y, f := v.f, sd := v.sd }

/-- the search step's evaluation, if any: the picked survivor of the filtered search set, with its oracle values -/
def searchCand (e : Env) (s : St) (q : Orc) : Option (Noisy.Cand × Bool) :=
  if Ctl.doSearch e.o s.ctl.c then
    match (filterCode (Pipe.filterIn e.pipe true q.h q.searchU (pts s)))[q.searchPick]?, q.searchVal with
    | some u, some v => some (mkCand u v, v.newRow)
    | _, _ => none
  else none

def searchOut (e : Env) (s : St) (q : Orc) : Ctl.SOut :=
  match searchCand e s q with
  | none => .empty
  | some (c, nr) => .eval nr (status (impr s.ns.fval c.f) q.thr)

def nsAfterSearch (e : Env) (s : St) (q : Orc) : Noisy.St :=
  if Ctl.doSearch e.o s.ctl.c then Noisy.searchUpdate s.ns ((searchCand e s q).map (·.1)) else s.ns

def cBeforePoll (e : Env) (s : St) (q : Orc) : Ctl.CSt :=
  Ctl.cReset e.o (Ctl.cAfterSearch e.o s.ctl.c (searchOut e s q))

def pollRuns (e : Env) (s : St) (q : Orc) : Bool := Ctl.doPoll e.o (Ctl.cAfterSearch e.o s.ctl.c (searchOut e s q))

def zipCands : List Pt → List Val → List (Noisy.Cand × Bool)
  | u :: us, v :: vs => (mkCand u v, v.newRow) :: zipCands us vs
  | _, _ => []

/-- the poll step's evaluations -/
def pollCands (e : Env) (s : St) (q : Orc) : List (Noisy.Cand × Bool) :=
  if pollRuns e s q then
    let out := filterCode (Pipe.filterIn e.pipe false q.h q.pollU (pts s ++ ((searchCand e s q).map (·.1.u)).toList))
    let picks := q.pollOrder.take (Ctl.nEvals e.o (cBeforePoll e s q).fc q.pollOrder.length)
    zipCands (Pipe.pickAll out picks) q.pollVals
  else []

def b2n (b : Bool) : Nat := if b then 1 else 0

def outOf (e : Env) (s : St) (q : Orc) : Ctl.Out :=
  let cs := pollCands e s q
  { search := searchOut e s q,
    zs := cs.map (fun c => impr (nsAfterSearch e s q).fval c.1.f),
    newRows := (cs.filter (·.2)).length,
    thr := q.thr, stallMesh := q.stallMesh, stallStop := q.stallStop }

/-- what the incumbent/history logic is told about this iteration: DERIVED from the controller and the pipeline -/
def iterOf (e : Env) (s : St) (q : Orc) : Noisy.Iter :=
  { search := if Ctl.doSearch e.o s.ctl.c then some ((searchCand e s q).map (·.1)) else none,
    poll := if pollRuns e s q then some ((pollCands e s q).map (·.1)) else none,
    it := s.ctl.c.pollIter,
    finished := (Ctl.step e.o s.ctl (outOf e s q)).c.finished,
    reVals := q.reVals }

def newPairs (e : Env) (s : St) (q : Orc) : List (Pt × Rat) :=
  ((searchCand e s q).map (fun c => (c.1.u, c.1.y))).toList ++ (pollCands e s q).map (fun c => (c.1.u, c.1.y))

def step (e : Env) (s : St) (q : Orc) : St :=
  { pairs := s.pairs ++ newPairs e s q,
    ns := Noisy.iterStep e.tolFun s.ns (iterOf e s q),
    ctl := Ctl.step e.o s.ctl (outOf e s q) }

def run (e : Env) : List Orc → St → St
  | [], s => s
  | q :: qs, s => if s.ctl.c.finished then s else run e qs (step e s q)

end Bads.Full
