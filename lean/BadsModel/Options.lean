/-
  `options.Options` + the two ini files, as used by `BADS.__init__` l.171-186:
    1. `Options(basic_path, {"D": D}, user_options)`: load the basic file (every default is the
       value of its expression in the environment of the options set so far), then
       `self.update(user_options)` and remember the user's names as protected;
    2. `load_options_file(advanced_path, {"D": D})`: load the advanced file, skipping protected names;
    3. `validate_option_names([basic, advanced])`: every name in the object must occur in a file.
  A default expression is an opaque token; `ev tok env D` is its value (ORACLE: Python's `eval`).
  `D` is an explicit argument: the model has no process-global cell, so independence of what
  other instances wrote there is true by construction of the model and is tied to the code by the
  multi-instance differential, not by a theorem.
-/
namespace Bads.Opt

abbrev Assoc (V : Type) := List (String × V)

def lookup {V : Type} (a : Assoc V) (k : String) : Option V := (a.find? (fun e => e.1 == k)).map (·.2)

def insert {V : Type} (a : Assoc V) (k : String) (v : V) : Assoc V :=
  if a.any (fun e => e.1 == k) then a.map (fun e => if e.1 == k then (k, v) else e) else a ++ [(k, v)]

structure File (T : Type) where
  entries : List (String × T)       -- option name, default-expression token, in file order

/-- `load_options_file`: names in `prot` (the user's) are skipped. -/
def loadFile {V T : Type} (ev : T → Assoc V → Nat → V) (D : Nat) (prot : List String) :
    List (String × T) → Assoc V → Assoc V
  | [], o => o
  | (k, tok) :: rest, o =>
    if prot.contains k then loadFile ev D prot rest o
    else loadFile ev D prot rest (insert o k (ev tok o D))

def update {V : Type} (o : Assoc V) : Assoc V → Assoc V
  | [] => o
  | (k, v) :: rest => update (insert o k v) rest

def load {V T : Type} (ev : T → Assoc V → Nat → V) (D : Nat) (basic adv : File T) (user : Assoc V) : Assoc V :=
  let o1 := loadFile ev D [] basic.entries []
  let o2 := update o1 user
  loadFile ev D (user.map (·.1)) adv.entries o2

/-- `validate_option_names`: `none` = accepted, `some k` = ValueError "The option k does not exist". -/
def validate {V T : Type} (o : Assoc V) (basic adv : File T) : Option String :=
  let names := basic.entries.map (·.1) ++ adv.entries.map (·.1)
  ((o.map (·.1)).find? (fun k => !names.contains k))

end Bads.Opt
