/-
  `poll_mads_2n` (LTMADS) and the poll set of `_poll_step_` (l.1929-1978, l.2079-2083).

  Random outcomes are ORACLE: `draw i j` (strictly-lower-triangular fill, code:
  `randint(1, 2·nmax) - nmax`, i.e. an integer in `[1-nmax, nmax-1]`), `sgn i` (diagonal sign,
  code: `nmax·2·(randint(1,3) - 1.5) = ±nmax`), and the row permutation `perm`.
  The division by `poll_scale` in the generator is undone by the caller's multiplication with
  `poll_scale`, so the offsets actually polled are `mesh_size · (integer rows)`; the model keeps
  the integer rows.
-/
import BadsModel.Num
namespace Bads.Poll

/-- `n_max = max(1, round(search_mesh_size / mesh_size))` -/
def nmaxOf (sms ms : Rat) : Int := max 1 (roundHE (sms / ms))

/-- Entry `(i, j)` of the lower-triangular matrix `tril(D, -1) + diag`. -/
def lowerTri (draw : Nat → Nat → Int) (sgn : Nat → Bool) (nmax : Int) (i j : Nat) : Int :=
  if j < i then draw i j else if j = i then (if sgn i then nmax else -nmax) else 0

/-- `transpose(permutation(D))`: direction `k` (row `k` of the result) is column `k` of the
    row-permuted matrix: its `r`-th entry is `L[perm r][k]`. -/
def dirEntry (draw : Nat → Nat → Int) (sgn : Nat → Bool) (nmax : Int) (perm : Nat → Nat) (k r : Nat) : Int :=
  lowerTri draw sgn nmax (perm r) k

def dirs (n : Nat) (draw : Nat → Nat → Int) (sgn : Nat → Bool) (nmax : Int) (perm : Nat → Nat) : List (List Int) :=
  (List.range n).map fun k => (List.range n).map fun r => dirEntry draw sgn nmax perm k r

/-- `B_new = vstack(D, -D)` -/
def basis (n : Nat) (draw : Nat → Nat → Int) (sgn : Nat → Bool) (nmax : Int) (perm : Nat → Nat) : List (List Int) :=
  let D := dirs n draw sgn nmax perm
  D ++ D.map (fun d => d.map (fun x => -x))

/-- Candidate poll points `u + mesh_size · b` for the rows `b` of the basis. -/
def pollPoints (u : Pt) (ms : Rat) (B : List (List Int)) : List Pt :=
  B.map fun (b : List Int) => List.zipWith (fun (ui : Rat) (bi : Int) => ui + ms * (bi : Rat)) u b

/-- Remove the element at index `i`. -/
def removeAt {α : Type} : List α → Nat → List α
  | [], _ => []
  | _ :: as, 0 => as
  | a :: as, i + 1 => a :: removeAt as i

/-- The poll loop: repeatedly evaluate the candidate the acquisition function ranks first
    (oracle: `picks`) and delete it from the set (`np.delete(u_poll, index_acq)`). -/
def pollLoop {α : Type} : List α → List Nat → List α
  | _, [] => []
  | cands, i :: is =>
    match cands[i]? with
    | some p => p :: pollLoop (removeAt cands i) is
    | none => []

end Bads.Poll
