/-
  GP training sets and fit-retry logic (gaussian_process_train.py, after the `fix:` commits):
  `get_grid_search_neighbors` l.1006-1058, `_get_fevals_data` l.1061-1094, `add_and_update_gp`
  l.1139-1172, `acq_fcn_lcb`, `_robust_gp_fit_` l.514-638, the retry loop of `init_and_train_gp`
  l.154-187, the update fallback of `local_gp_fitting` l.467-478.
  ORACLE: the (length-scaled) squared distances, GP predictions, `sqrt(beta_t)`, whether a fit
  raises LinAlgError, and which rows a retry drops.
-/
import BadsModel.Num
namespace Bads.GP

/-- a log row as the GP sees it: point, value, SD (when the logger keeps noise) -/
structure Obs where
  x : Pt
  y : Rat
  s : Option Rat
deriving Repr, DecidableEq

/-- a training triple: point, value, noise VARIANCE -/
structure Train where
  x : Pt
  y : Rat
  s2 : Option Rat
deriving Repr, DecidableEq

def toTrain (o : Obs) : Train := { x := o.x, y := o.y, s2 := o.s.map (fun v => v * v) }

/-- number of training points (l.1040-1052) -/
def ntrain (nMin nMax buffer : Int) (within N : Nat) : Nat :=
  let a : Int := min nMax within
  let b : Int := max nMin (max (nMax - buffer) a)
  (min b N).toNat

def insertBy {α : Type} (le : α → α → Bool) (a : α) : List α → List α
  | [] => [a]
  | b :: bs => if le a b then a :: b :: bs else b :: insertBy le a bs

/-- stable ascending sort (what `np.argsort` on distinct-or-tied keys yields up to ties) -/
def sortBy {α : Type} (le : α → α → Bool) : List α → List α
  | [] => []
  | a :: as => insertBy le a (sortBy le as)

/-- `get_grid_search_neighbors`: the `ntrain` logged rows nearest to the reference point, ordered
    by distance. `dist` is parallel to `log`. -/
def neighbors (log : List Obs) (dist : List Rat) (radius2 : Rat) (nMin nMax buffer : Int) : List Train :=
  let within := (dist.filter (fun d => d ≤ radius2)).length
  let n := ntrain nMin nMax buffer within log.length
  ((sortBy (fun a b => decide (a.2 ≤ b.2)) (log.zip dist)).take n).map (fun p => toTrain p.1)

/-- `_get_fevals_data`: the initial training set is the whole log, SD squared. -/
def fevals (log : List Obs) : List Train := log.map toTrain

/-- `add_and_update_gp`: append the newly evaluated point. -/
def addPoint (gp : List Train) (x : Pt) (y : Rat) (sd : Option Rat) : List Train :=
  gp ++ [{ x := x, y := y, s2 := sd.map (fun v => v * v) }]

/-- `acq_fcn_lcb` -/
def lcb (mu s sqrtBeta : Rat) : Rat := mu - sqrtBeta * s

/-! ### fit retries -/

/-- sizes of the arrays handed to one `GP.fit` attempt -/
structure Shapes where
  nX : Nat
  nY : Nat
  nS2 : Option Nat
deriving Repr, DecidableEq

def Shapes.agree (s : Shapes) : Bool := s.nX == s.nY && (match s.nS2 with | some k => k == s.nX | none => true)

/-- `_robust_gp_fit_`: up to `nTry` attempts. `outcomes[i] = true` iff attempt `i` raises
    LinAlgError; after failure `i` with `i > removeAfter - 1` the retry drops `drops[i]` rows
    (closest pair's worse point and the > 95th-percentile values) from X, Y and the noise vector.
    Returns the shapes of every attempt made and whether some attempt succeeded. -/
def robustFit (nTry removeAfter : Nat) : Shapes → List Bool → List Nat → Nat → List Shapes × Bool
  | _, [], _, _ => ([], false)
  | sh, fail :: outs, drops, i =>
    if i ≥ nTry then ([], false)
    else if !fail then ([sh], true)
    else
      let d := if i + 1 > removeAfter then min (drops.headD 0) sh.nX else 0
      let sh' : Shapes := { nX := sh.nX - d, nY := sh.nY - d, nS2 := sh.nS2.map (· - d) }
      let (rest, ok) := robustFit nTry removeAfter sh' outs drops.tail (i + 1)
      (sh :: rest, ok)

/-- `init_and_train_gp` retry loop: the same data is refitted (with other starting
    hyper-parameters) until an attempt succeeds. -/
def initFit (sh : Shapes) : List Bool → List Shapes × Bool
  | [] => ([], false)
  | fail :: outs => if !fail then ([sh], true) else let (r, ok) := initFit sh outs; (sh :: r, ok)

/-- `local_gp_fitting` posterior update: on LinAlgError the previous priors and hyper-parameters
    are restored and the exit flag is -2; the optimisation goes on. -/
def updateFallback (oldHyp newHyp : List Rat) (fails : Bool) : List Rat × Int :=
  if fails then (oldHyp, -2) else (newHyp, 0)

/-! ### the surrogate's training set over a whole run

  `init_and_train_gp` (whole log) -> per search round / poll step `local_gp_fitting` (the neighbourhood of the incumbent, refit through
  `_robust_gp_fit_`, which retries on a COPY: the rows a retry drops are dropped from the copy only) -> after each evaluation
  `add_and_update_gp` (one appended row).  The log handed to an event is the evaluation log at that moment (ORACLE here: the logger is
  modelled in Logger.lean), so are the distances, the fit outcomes and the rows a retry drops. -/

inductive Ev where
  | initial (log : List Obs) (fails : List Bool)
  | select (log : List Obs) (dist : List Rat) (r2 : Rat) (nMin nMax buffer : Int) (nTry removeAfter : Nat) (fails : List Bool) (drops : List Nat)
  | add (x : Pt) (y : Rat) (sd : Option Rat)
deriving Repr

/-- the surrogate as far as C15/C16 see it: the training set it is conditioned on, whether its last hyper-parameter fit succeeded, and
    the shapes of the arrays every fit attempt of the run was given -/
structure Sur where
  train : List Train
  fitOK : Bool
  attempts : List Shapes
deriving Repr

def Sur.init : Sur := { train := [], fitOK := false, attempts := [] }

def shapesOf (t : List Train) : Shapes :=
  { nX := t.length, nY := t.length, nS2 := if t.all (fun r => r.s2.isSome) && !t.isEmpty then some t.length else none }

def sstep (s : Sur) : Ev → Sur
  | .initial log fails =>
      let t := fevals log
      let (att, ok) := initFit (shapesOf t) fails
      { train := t, fitOK := ok, attempts := s.attempts ++ att }
  | .select log dist r2 nMin nMax buffer nTry removeAfter fails drops =>
      let t := neighbors log dist r2 nMin nMax buffer
      let (att, ok) := robustFit nTry removeAfter (shapesOf t) fails drops 0
      { train := t, fitOK := if fails.isEmpty then s.fitOK else ok, attempts := s.attempts ++ att }      -- the retries worked on a copy: `t` is kept whole; no refit without attempts
  | .add x y sd => { s with train := addPoint s.train x y sd }

def srun (evs : List Ev) : Sur := evs.foldl sstep Sur.init

end Bads.GP
