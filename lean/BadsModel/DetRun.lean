/-
  One model of a whole DETERMINISTIC run of `BADS.optimize()` (noise level 0, default improvement policy),
  composed of the component models:

    * `Ctl`  - which steps run, the counters, the mesh exponents, termination (Controller.lean),
    * `Pipe` - which points reach the target: rows of filtered candidate sets (Pipeline.lean, Filter.lean),
    * `Inc`  - the incumbent (Incumbent.lean),

  tied together by the TARGET AS A FUNCTION `f` of the internal point: the values the incumbent logic sees,
  the improvements the controller sees and the judged status of a search are all DERIVED from `f` at the
  evaluated points, not oracle inputs any more.

  ORACLE per loop iteration (`Orc`): the candidate sets handed to the filters (ES output, poll directions
  times mesh), the index of the candidate the acquisition function ranks first (search) and the order in
  which poll candidates are tried together with how many of them the GP-based stopping rule lets through,
  the success threshold and the two stall tests.
-/
import BadsModel.Controller
import BadsModel.Pipeline
import BadsModel.Incumbent
import BadsModel.Fl
namespace Bads.Det

structure Env where
  pipe : Pipe.Env
  o : Ctl.Opts
  f : Pt → Rat               -- target value at the internal point u (the user's function after inverse_transf)

structure St where
  log : List (Pt × Rat)      -- recorded evaluations, in call order
  inc : Inc.St
  ctl : Ctl.St
deriving Repr

structure Orc where
  h : Rat                    -- search mesh size of this iteration
  searchU : List Pt          -- candidate set of the search step (after the ES)
  searchPick : Nat           -- position (in the filtered set) of the acquisition-optimal candidate
  pollU : List Pt            -- candidate set of the poll step
  pollOrder : List Nat       -- positions (in the filtered set) in the order the poll tries them
  thr : Rat                  -- sufficient_improvement of this iteration
  stallMesh : Bool
  stallStop : Bool

def logPts (s : St) : List Pt := s.log.map (·.1)

/-- `_eval_improvement_` for a deterministic target with the default quantile (`s_base = s_new = 0`, `q = 0.5`):
    the binary64 difference `fval - y` (the model's numbers are the exact rationals of binary64 values) -/
def impr (fval y : Rat) : Rat := Fl.sub fval y

/-- judged as in `_search_step_` l.1727-1742 -/
def status (z thr : Rat) : Ctl.Status := if z > thr then .success else if z > 0 then .incremental else .failure

/-- the search step's evaluation, if any -/
def searchEval (e : Env) (s : St) (q : Orc) : Option (Pt × Rat) :=
  if Ctl.doSearch e.o s.ctl.c then
    match (filterCode (Pipe.filterIn e.pipe true q.h q.searchU (logPts s)))[q.searchPick]? with
    | some u => some (u, e.f u)
    | none => none
  else none

def searchOut (e : Env) (s : St) (q : Orc) : Ctl.SOut :=
  match searchEval e s q with
  | none => .empty
  | some (_, y) => .eval true (status (impr s.inc.fval y) q.thr)

def incAfterSearch (e : Env) (s : St) (q : Orc) : Inc.St := Inc.searchUpdate s.inc (searchEval e s q)

/-- counters after the search, with the round bookkeeping applied (what the poll's loop guard sees) -/
def cBeforePoll (e : Env) (s : St) (q : Orc) : Ctl.CSt :=
  Ctl.cReset e.o (Ctl.cAfterSearch e.o s.ctl.c (searchOut e s q))

def pollRuns (e : Env) (s : St) (q : Orc) : Bool := Ctl.doPoll e.o (Ctl.cAfterSearch e.o s.ctl.c (searchOut e s q))

/-- the poll step's evaluations: the filtered poll set, tried in the oracle's order, cut by the loop guard
    (at most `2D`, at most the remaining budget) -/
def pollEvals (e : Env) (s : St) (q : Orc) : List (Pt × Rat) :=
  if pollRuns e s q then
    let out := filterCode (Pipe.filterIn e.pipe false q.h q.pollU (logPts s ++ (searchEval e s q).toList.map (·.1)))
    let picks := q.pollOrder.take (Ctl.nEvals e.o (cBeforePoll e s q).fc q.pollOrder.length)
    (Pipe.pickAll out picks).map (fun u => (u, e.f u))
  else []

/-- what the controller is told about this iteration: DERIVED from `f` -/
def outOf (e : Env) (s : St) (q : Orc) : Ctl.Out :=
  let zs := (pollEvals e s q).map (fun p => impr (incAfterSearch e s q).fval p.2)
  { search := searchOut e s q, zs := zs, newRows := zs.length, thr := q.thr,
    stallMesh := q.stallMesh, stallStop := q.stallStop }

/-- one iteration of the main loop -/
def step (e : Env) (s : St) (q : Orc) : St :=
  { log := s.log ++ (searchEval e s q).toList ++ pollEvals e s q,
    inc := if pollRuns e s q then Inc.pollUpdate (incAfterSearch e s q) (pollEvals e s q) else incAfterSearch e s q,
    ctl := Ctl.step e.o s.ctl (outOf e s q) }

/-- the loop: stops consuming the oracle stream once the controller has finished -/
def run (e : Env) : List Orc → St → St
  | [], s => s
  | q :: qs, s => if s.ctl.c.finished then s else run e qs (step e s q)

/-- every intermediate state (for the correspondence check) -/
def trace (e : Env) : List Orc → St → List St
  | [], _ => []
  | q :: qs, s => if s.ctl.c.finished then [] else let s' := step e s q; s' :: trace e qs s'

end Bads.Det
