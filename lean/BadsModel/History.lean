/-
  `utils/iteration_history.IterationHistory` and `bads/optimize_result.OptimizeResult` as
  containers.  Stored values are immutable in the model (the code deep-copies on store, which is
  what makes a stored value immune to later mutation by the caller - that part is heap behaviour
  and is covered by the differential check, not by a theorem).
-/
namespace Bads.Hist

inductive Err where
  | valueError
  | attributeError
  | keyError
deriving Repr, DecidableEq

structure H (V : Type) where
  keys : List String
  data : List (String × List (Option V))     -- one slot list per key that has been recorded

def lookup {V : Type} (h : H V) (key : String) : Option (List (Option V)) :=
  (h.data.find? (fun e => e.1 == key)).map (·.2)

def setSlot {V : Type} (l : List (Option V)) (i : Nat) (v : V) : List (Option V) :=
  let l' := if l.length ≤ i then l ++ List.replicate (i + 1 - l.length) none else l
  l'.set i (some v)

def store {V : Type} (d : List (String × List (Option V))) (key : String) (slots : List (Option V)) :
    List (String × List (Option V)) :=
  if d.any (fun e => e.1 == key) then d.map (fun e => if e.1 == key then (key, slots) else e) else d ++ [(key, slots)]

/-- `record(key, value, iteration)` -/
def record {V : Type} (h : H V) (key : String) (v : V) (it : Int) : Except Err (H V) :=
  if it < 0 then .error .valueError
  else if !h.keys.contains key then .error .valueError
  else
    let slots := (lookup h key).getD [none]      -- `self[key] = np.full([1], None)` on first use
    .ok { h with data := store h.data key (setSlot slots it.toNat v) }

/-- value recorded for `key` at iteration `it` -/
def get {V : Type} (h : H V) (key : String) (it : Nat) : Option V :=
  match lookup h key with
  | some slots => (slots[it]?).join
  | none => none

def slotsLen {V : Type} (h : H V) (key : String) : Nat := ((lookup h key).map List.length).getD 0

/-- `OptimizeResult`: fixed key set; `__setitem__` rejects unknown keys, `__getitem__` raises
    KeyError, `__getattr__` maps a missing key to AttributeError. -/
structure Res (V : Type) where
  allowed : List String
  items : List (String × V)

def Res.set {V : Type} (r : Res V) (key : String) (v : V) : Except Err (Res V) :=
  if !r.allowed.contains key then .error .valueError
  else .ok { r with items := (r.items.filter (fun e => e.1 != key)) ++ [(key, v)] }

def Res.getItem {V : Type} (r : Res V) (key : String) : Except Err V :=
  match r.items.find? (fun e => e.1 == key) with
  | some e => .ok e.2
  | none => .error .keyError

def Res.getAttr {V : Type} (r : Res V) (key : String) : Except Err V :=
  match r.getItem key with
  | .ok v => .ok v
  | .error _ => .error .attributeError

end Bads.Hist
