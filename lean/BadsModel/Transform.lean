/-
  `variables_transformer.VariableTransformer`, one coordinate at a time.

  `mu = (φ(plb) + φ(pub)) / 2`, `gamma = (φ(pub) - φ(plb)) / 2` with `φ = log` for a
  log-transformed coordinate and `φ = id` otherwise;
  `g(x) = (φ(x) - mu) / gamma`, `ginv(y) = ψ(gamma · y + mu)` with `ψ = exp` / `id`;
  `__call__ = clamp[lbT, ubT] ∘ g`, `inverse_transf = clamp[origLo, origHi] ∘ ginv`,
  where `lbT = g(origLo)`, `ubT = g(origHi)` (infinite bounds stay infinite).
  The transcendental pair `(φ, ψ)` is abstract: the theorems assume only that `φ` is strictly
  increasing on its domain with inverse `ψ`; the correspondence applies numpy's log/exp on the
  harness side and lets the model do the affine part, the clamps and the decision rule.
-/
import BadsModel.Fl
namespace Bads.Tr

open Bads (Ext clampE)

structure Coord where
  isLog : Bool
  mu : Rat
  gamma : Rat
  origLo : Ext
  origHi : Ext
deriving Repr

/-- affine part of `g` applied to `t = φ(x)` -/
def gAff (c : Coord) (t : Rat) : Rat := (t - c.mu) / c.gamma
/-- affine part of `ginv`: the argument of `ψ` -/
def ginvAff (c : Coord) (y : Rat) : Rat := c.gamma * y + c.mu

def mapExt (f : Rat → Rat) : Ext → Ext
  | .fin a => .fin (f a)
  | e => e

/-- internal bounds `lbT = g(origLo)`, `ubT = g(origHi)` -/
def lbT (φ : Rat → Rat) (c : Coord) : Ext := mapExt (fun a => gAff c (φ a)) c.origLo
def ubT (φ : Rat → Rat) (c : Coord) : Ext := mapExt (fun a => gAff c (φ a)) c.origHi

/-- `__call__` -/
def call (φ : Rat → Rat) (c : Coord) (x : Rat) : Rat := clampE (lbT φ c) (ubT φ c) (gAff c (φ x))
/-- `inverse_transf` -/
def inverse (ψ : Rat → Rat) (c : Coord) (y : Rat) : Rat := clampE c.origLo c.origHi (ψ (ginvAff c y))

def mkCoord (φ : Rat → Rat) (isLog : Bool) (lb ub : Ext) (plb pub : Rat) : Coord :=
  { isLog := isLog, mu := (φ plb + φ pub) / 2, gamma := (φ pub - φ plb) / 2, origLo := lb, origHi := ub }

def extPos : Ext → Bool
  | .fin a => decide (a > 0)
  | .pinf => true
  | _ => false

/-- The decision rule (l.150-167): log-transform iff nonlinear scaling is on, all four bounds are
    positive and the plausible range spans at least a decade (`pub / plb >= 10` in binary64). -/
def applyLog (nonlinear : Bool) (lb ub : Ext) (plb pub : Rat) : Bool :=
  nonlinear && extPos lb && extPos ub && decide (plb > 0) && decide (pub > 0) && decide (Fl.div pub plb ≥ 10)

end Bads.Tr
