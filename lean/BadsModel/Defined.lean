/-
  Definedness model of the rare internal paths named by C09 (after the `fix:` commits): each
  mechanism is a small total function returning `Except Err _` with NumPy/Python's raising
  conditions (`a[0]` on a length-0 array -> IndexError, missing dict key -> KeyError, `int(nan)` ->
  ValueError, `.item()` on a Python float -> AttributeError, `astype(float)` on a ragged object
  array -> ValueError, subscripting None -> TypeError).
-/
namespace Bads.Def

inductive Err where
  | indexError | keyError | valueError | attributeError | typeError
deriving Repr, DecidableEq

/-- dynamic kind of a value flowing through the bookkeeping -/
inductive Kind where
  | pyfloat | npscalar | arr (n : Nat) | none
deriving Repr, DecidableEq

/-- (a) `ESSearch.__call__` return (es_search.py l.206-213): the best survivor, or the empty set. -/
def esReturn (nSurvivors : Nat) : Except Err (Option Nat) :=
  if nSurvivors = 0 then .ok Option.none else .ok (some 0)

/-- `_search_step_` (l.1625-1716): an empty search set evaluates nothing and defines every variable
    the function returns. -/
def searchStep (es : Option Nat) : Except Err (Bool × Kind) :=
  match es with
  | Option.none => .ok (false, .arr 0)        -- `u_search = u_search_set`, no evaluation
  | some _ => .ok (true, .arr 1)

/-- (b) value returned by the logger for a call (function_logger.py `_record`): a scalar in every
    branch (new row, no-record duplicate, merged duplicate under specified noise). -/
inductive RecBranch where
  | fresh | norecord | merged
def recordValueKind : RecBranch → Kind
  | .fresh => .pyfloat
  | .norecord => .pyfloat
  | .merged => .pyfloat                        -- `self.Y[idx].item()`

/-- `gp_stats.get("fval")[...].flatten().astype("float")` (bads.py `_is_gp_refit_time_`): defined iff
    every recorded value is a scalar -/
def statsAsFloat (ks : List Kind) : Except Err Unit :=
  if ks.all (fun k => k == .pyfloat || k == .npscalar) then .ok () else .error .valueError

/-- `float(self.yval)` when recording the iteration (l.1350) -/
def floatOf : Kind → Except Err Unit
  | .pyfloat => .ok ()
  | .npscalar => .ok ()
  | .arr 1 => .ok ()        -- deprecated but defined for size-1 arrays only when 0-d; pybads passes scalars
  | _ => .error .typeError

/-- (c) `_get_gp_training_options`: the schedule variable and `init_N = max(round(f(x)), final)`;
    `none` stands for NaN. -/
def schedX (nEff eff budget nTrainMax : Int) : Option Rat :=
  let span := min budget nTrainMax - eff
  if span = 0 then some 1 else some (((nEff - eff : Int) : Rat) / (span : Rat))

def roundInt : Option Rat → Except Err Int
  | Option.none => .error .valueError          -- int(nan)
  | some q => .ok (q + 1/2).floor

def trainOpts (nEff eff budget nTrainMax : Int) : Except Err Int := roundInt (schedX nEff eff budget nTrainMax)

/-- (d) `_get_target_from_gp_` fallback (l.2411-2417) followed by the callers' `.item()` -/
def targetMu (predFinite : Bool) : Kind := if predFinite then .arr 1 else .arr 1     -- `np.asarray(optim_state["fval"])`
def itemOf : Kind → Except Err Unit
  | .arr _ => .ok ()
  | .npscalar => .ok ()
  | _ => .error .attributeError

/-- (e) final block of `optimize()` and `OptimizeResult` (l.1428-1494, optimize_result.py l.121-125):
    is the key `yval_vec` present when the result reads it? -/
def yvalVecSet (unc : Nat) (_pollIter : Nat) (nfs : Nat) : Bool := decide (unc > 0) && decide (nfs > 0)
def resultReadsYvalVec (unc nfs : Nat) : Bool := decide (unc > 0) && decide (nfs > 0)
def buildResult (unc pollIter nfs : Nat) : Except Err Unit :=
  if resultReadsYvalVec unc nfs && !yvalVecSet unc pollIter nfs then .error .keyError else .ok ()

/-- hedge draw (search_hedge.py l.64-69): index of the first partial sum above the draw, or a
    uniformly drawn strategy when there is none (non-finite probabilities) -/
def hedgeChoice (firstAbove : Option Nat) (fallback : Nat) : Except Err Nat :=
  match firstAbove with
  | some i => .ok i
  | Option.none => .ok fallback

/-- `_get_random_samples_from_priors_`: hyper-parameters without a prior are skipped -/
def samplePrior (prior : Option Unit) : Except Err Bool :=
  match prior with
  | Option.none => .ok false
  | some _ => .ok true

end Bads.Def
