/-
  `BADS.__init__` l.150-169, 204-225 and `_bounds_check_` l.291-539: the decision procedure that
  accepts or rejects a problem definition, as coded (after the `fix:` commits recorded in
  known_findings.json), on IEEE values (`Ext`) with binary64 rounding `Fl.rn` for the two
  arithmetic expressions the code evaluates (`ub - lb`, `lb ± 1e-3 * range`).
  N0 = 1 (a single starting point); the non-box-constraint probe and logging are not modelled.
-/
import BadsModel.Fl
namespace Bads.Val

open Bads (Ext)

/-- IEEE addition / subtraction / scaling by a finite constant on `Ext`, rounding finite results. -/
def eadd : Ext → Ext → Ext
  | .nan, _ => .nan
  | _, .nan => .nan
  | .fin a, .fin b => .fin (Fl.rn (a + b))
  | .pinf, .ninf => .nan
  | .ninf, .pinf => .nan
  | .pinf, _ => .pinf
  | _, .pinf => .pinf
  | .ninf, _ => .ninf
  | _, .ninf => .ninf

def eneg : Ext → Ext
  | .fin a => .fin (-a)
  | .pinf => .ninf
  | .ninf => .pinf
  | .nan => .nan

def esub (a b : Ext) : Ext := eadd a (eneg b)

/-- multiply by a positive finite constant -/
def escale (c : Rat) : Ext → Ext
  | .fin a => .fin (Fl.rn (c * a))
  | e => e

/-- the double nearest to 1e-3 -/
def c1em3 : Rat := 1152921504606847 / 1152921504606846976

structure Raw where
  x0 : Option (List Ext)
  lb : Option (List Ext)
  ub : Option (List Ext)
  plb : Option (List Ext)
  pub : Option (List Ext)
deriving Repr

structure Norm where
  x0 : List Ext
  lb : List Ext
  ub : List Ext
  plb : List Ext
  pub : List Ext
deriving Repr, DecidableEq

inductive Err where
  | unknownDims | dimMismatch | plausibleNotFinite | fixedVariable | plausibleEqual | x0Outside
  | boundsTooClose | order1 | order2 | halfBounded
deriving Repr, DecidableEq

def zip2 (f : Ext → Ext → Bool) : List Ext → List Ext → List Bool
  | a :: as, b :: bs => f a b :: zip2 f as bs
  | _, _ => []

def anyB (l : List Bool) : Bool := l.any id

def ordOK (lb plb pub ub : Ext) : Bool := Ext.le lb plb && Ext.lt plb pub && Ext.le pub ub

def zip4 (f : Ext → Ext → Ext → Ext → Bool) : List Ext → List Ext → List Ext → List Ext → List Bool
  | a :: as, b :: bs, c :: cs, d :: ds => f a b c d :: zip4 f as bs cs ds
  | _, _, _, _ => []

def map2 (f : Ext → Ext → Ext) : List Ext → List Ext → List Ext
  | a :: as, b :: bs => f a b :: map2 f as bs
  | _, _ => []

/-- `bounds_range`, then the effective bounds of one coordinate (l.416-430). -/
def effLo (lb ub : Ext) : Ext :=
  let r := esub ub lb
  let r := if r.isInf then .fin 1000 else r
  if lb.isInf then lb else eadd lb (escale c1em3 r)

def effHi (lb ub : Ext) : Ext :=
  let r := esub ub lb
  let r := if r.isInf then .fin 1000 else r
  if ub.isInf then ub else esub ub (escale c1em3 r)

/-- l.439-484: the three adjustments (start point inside the effective bounds; plausible bounds
    inside the effective bounds; plausible box expanded to contain the start point). -/
def adjust (x0 lb ub plb pub : List Ext) : List Ext × List Ext × List Ext :=
  let lbe := map2 effLo lb ub
  let ube := map2 effHi lb ub
  let x1 := if anyB (zip2 Ext.lt x0 lbe) || anyB (zip2 (fun x u => Ext.lt u x) x0 ube)
            then map2 Ext.max (map2 Ext.min x0 ube) lbe else x0
  let p1 := if anyB (zip2 (fun a p => Ext.lt p a) lbe plb) || anyB (zip2 (fun q b => Ext.lt b q) pub ube)
            then (map2 Ext.max plb lbe, map2 Ext.min pub ube) else (plb, pub)
  let p2 := if anyB (zip2 Ext.le x1 lbe) || anyB (zip2 (fun x u => Ext.le u x) x1 ube)
            then (map2 Ext.min p1.1 x1, map2 Ext.max p1.2 x1) else p1
  (x1, p2.1, p2.2)

def halfAny (lb ub : List Ext) : Bool :=
  anyB (zip2 (fun l u => (l.isFinite && !u.isFinite) || (!l.isFinite && u.isFinite)) lb ub)

/-- `_bounds_check_` on vectors of the same declared dimension `D`. -/
def checkCore (D : Nat) (x0 lb ub plb pub : List Ext) : Except Err Norm :=
  if lb.length != D || ub.length != D || plb.length != D || pub.length != D then .error .dimMismatch
  else if anyB (plb.map (fun e => !e.isFinite)) || anyB (pub.map (fun e => !e.isFinite)) then .error .plausibleNotFinite
  else if anyB (zip4 (fun l u p q => Ext.eq l u && Ext.eq u p && Ext.eq p q) lb ub plb pub) then .error .fixedVariable
  else if anyB (zip2 Ext.eq plb pub) then .error .plausibleEqual
  else if anyB (zip2 Ext.lt x0 lb) || anyB (zip2 (fun x u => Ext.lt u x) x0 ub) || anyB (x0.map (·.isInf)) then .error .x0Outside
  else if anyB (zip2 (fun a b => Ext.le b a) (map2 effLo lb ub) (map2 effHi lb ub)) then .error .boundsTooClose
  else if anyB ((zip4 ordOK lb plb pub ub).map (!·)) then .error .order1
  else if anyB ((zip4 ordOK lb (adjust x0 lb ub plb pub).2.1 (adjust x0 lb ub plb pub).2.2 ub).map (!·)) then .error .order2
  else if halfAny lb ub then .error .halfBounded
  else .ok { x0 := (adjust x0 lb ub plb pub).1, lb := lb, ub := ub,
             plb := (adjust x0 lb ub plb pub).2.1, pub := (adjust x0 lb ub plb pub).2.2 }

/-- `__init__` l.150-169, 204-209: defaulting of absent vectors; `none` = the dimension cannot be inferred. -/
def prepare (r : Raw) : Option (List Ext × List Ext × List Ext × List Ext × List Ext) :=
  let plb0 := match r.plb with | some v => some v | none => r.lb
  let pub0 := match r.pub with | some v => some v | none => r.ub
  let x0? : Option (List Ext) := match r.x0 with
    | some v => some v
    | none => match plb0, pub0 with
      | some p, some _ => some (p.map (fun _ => Ext.nan))
      | _, _ => none
  match x0? with
  | none => none
  | some x0 =>
    let D := x0.length
    let lb := r.lb.getD (List.replicate D .ninf)
    let ub := r.ub.getD (List.replicate D .pinf)
    some (x0, lb, ub, plb0.getD lb, pub0.getD ub)

def validate (r : Raw) : Except Err Norm :=
  match prepare r with
  | none => .error .unknownDims
  | some (x0, lb, ub, plb, pub) => checkCore x0.length x0 lb ub plb pub

end Bads.Val

namespace Bads.Val
open Bads (Ext)

/-- The property's sentence, per coordinate (after defaulting absent plausible bounds to the hard
    bounds): finite distinct ordered plausible bounds inside the hard bounds, start point (where
    given) inside the hard bounds, hard bounds numerically distinguishable (the code's own margin
    expression), and bounded on both sides or on none. -/
def coordValid (x0 lb ub plb pub : Ext) : Bool :=
  plb.isFinite && pub.isFinite && Ext.lt plb pub && Ext.le lb plb && Ext.le pub ub &&
  (x0.isNan || (x0.isFinite && Ext.le lb x0 && Ext.le x0 ub)) &&        -- a start coordinate, where given, is a number inside the hard bounds
  Ext.lt (effLo lb ub) (effHi lb ub) &&
  ((lb.isFinite && ub.isFinite) || (lb.isInf && ub.isInf))

def zip5 (f : Ext → Ext → Ext → Ext → Ext → Bool) : List Ext → List Ext → List Ext → List Ext → List Ext → List Bool
  | a :: as, b :: bs, c :: cs, d :: ds, e :: es => f a b c d e :: zip5 f as bs cs ds es
  | _, _, _, _, _ => []

/-- `some true` valid, `some false` invalid, `none` unspecified by the property (a start point with
    some but not all coordinates NaN in a definition that is otherwise valid, its given coordinates inside the hard bounds). -/
def specValid (r : Raw) : Option Bool :=
  match prepare r with
  | none => some false                      -- no way to infer the dimension
  | some (x0, lb, ub, plb, pub) =>
    let D := x0.length
    if lb.length != D || ub.length != D || plb.length != D || pub.length != D then some false
    else
      let nNan := (x0.filter (·.isNan)).length
      let allOK := (zip5 coordValid x0 lb ub plb pub).all id        -- a NaN coordinate of x0 counts as "not given" there
      if 0 < nNan && nNan < D then (if allOK then none else some false)    -- a coordinate-wise invalidity stays one whatever the rest of x0 is
      else some allOK

end Bads.Val
