/-
  `function_logger.FunctionLogger` as a state machine (as coded, after the `fix:` commits
  recorded in known_findings.json).

  Arrays are lists of filled rows (`rows`, length `Xn + 1`) plus the allocated capacity.
  The SD of a row is kept as its precision `tau = 1 / S^2` (a rational; the code stores
  `S = 1 / sqrt(tau)`), so the precision-weighted merge is exact in the model.
  The timer / `fun_eval_time` bookkeeping is not modelled.
-/
import BadsModel.Num
namespace Bads.Log

structure Row where
  xo : Pt            -- X_orig
  x : Pt             -- X (internal coordinates)
  y : Rat            -- Y
  yo : Rat           -- Y_orig (value of the observation that created the row)
  tau : Option Rat   -- 1 / S^2 when the logger keeps noise (noise_flag)
  n : Nat            -- n_evals
deriving Repr, DecidableEq

structure St where
  rows : List Row    -- filled rows 0..Xn, in order
  cap : Nat          -- allocated number of rows (X.shape[0])
  xMaxIdx : Int      -- X_max_idx
  fc : Nat           -- func_count
  cacheCount : Nat   -- cache_count
  noise : Bool       -- noise_flag
  he : Bool          -- he_noise_flag (uncertainty level 2)
deriving Repr

def init (cacheSize : Nat) (noise he : Bool) : St :=
  { rows := [], cap := cacheSize, xMaxIdx := -1, fc := 0, cacheCount := 0, noise := noise, he := he }

/-- What the target returned at one call. `none` components are invalid values
    (NaN, ±inf, complex, non-scalar, None; for the SD also zero or negative). -/
inductive Outcome where
  | raises
  | scalar (y : Option Rat)
  | pair (y : Option Rat) (sd : Option Rat)
  | otherTuple
deriving Repr

inductive Err where
  | targetError      -- the target's own exception, re-raised
  | valueError
deriving Repr, DecidableEq

/-- Returned `(fval, fsd, idx)`; `fsd` is reported as the SD itself. -/
structure Ret where
  fval : Rat
  fsd : Option Rat
  idx : Option Nat
deriving Repr

/-- `np.max((np.ceil(Xn / 2), 1))` -/
def growBy (xn : Nat) : Nat := max ((xn + 1) / 2) 1

/-- index of the LAST row whose internal coordinates equal `x` (no-record path) -/
def lastMatch (x : Pt) : List Row → Option Nat
  | [] => none
  | r :: rs =>
    match lastMatch x rs with
    | some i => some (i + 1)
    | none => if r.x == x then some 0 else none

/-- index of the FIRST row whose internal coordinates equal `x` -/
def firstMatch (x : Pt) : List Row → Option Nat
  | [] => none
  | r :: rs => if r.x == x then some 0 else (firstMatch x rs).map (· + 1)

def countMatch (x : Pt) (rows : List Row) : Nat := (rows.filter (fun r => r.x == x)).length

/-- apply `f` to row `i` -/
def modAt (f : Row → Row) : List Row → Nat → List Row
  | [], _ => []
  | r :: rs, 0 => f r :: rs
  | r :: rs, i + 1 => r :: modAt f rs i

def bumpN (rows : List Row) (i : Nat) : List Row :=
  modAt (fun r => { r with n := r.n + 1 }) rows i

/-- Merge an observation `(y, sd)` into row `i`: precision-weighted mean, combined precision. -/
def mergeRow (r : Row) (y sd : Rat) : Row :=
  let tn := r.tau.getD 0
  let t1 := 1 / (sd * sd)
  { r with y := (tn * r.y + t1 * y) / (tn + t1), tau := some (tn + t1), n := r.n + 1 }

/-- `_record`. `sd = none` when no noise value accompanies the observation. -/
def record (s : St) (xo x : Pt) (y : Rat) (sd : Option Rat) (recordDup : Bool) : Except Err (St × Rat × Option Nat) :=
  if !recordDup then
    match lastMatch x s.rows with
    | some i => .ok ({ s with rows := bumpN s.rows i }, y, some i)
    | none => .ok (s, y, none)
  else
    let dup : Option (Nat × Rat) :=
      match sd with
      | some sdv => if s.he then (firstMatch x s.rows).map (fun i => (i, sdv)) else none     -- merged only under SPECIFIED noise
      | none => none
    match sd, dup with
    | some _, some (i, sdv) =>
      if countMatch x s.rows > 1 then .error .valueError
      else
        let rows' := modAt (fun r => mergeRow r y sdv) s.rows i
        let yNew := match rows'[i]? with | some r => r.y | none => y
        .ok ({ s with rows := rows' }, yNew, some i)
    | _, _ =>
      let xn := s.rows.length            -- new Xn
      let cap' := if xn > s.cap - 1 || s.cap = 0 then s.cap + growBy xn else s.cap
      let row : Row := { xo := xo, x := x, y := y, yo := y, tau := sd.map (fun v => 1 / (v * v)), n := 1 }
      .ok ({ s with rows := s.rows ++ [row], cap := cap', xMaxIdx := min (s.xMaxIdx + 1) cap' }, y, some xn)

/-- `__call__` on internal point `x` whose original-space image is `xo`. -/
def call (s : St) (xo x : Pt) (out : Outcome) (recordDup : Bool) : Except Err (St × Ret) :=
  let fin (y : Rat) (sd : Option Rat) : Except Err (St × Ret) :=
    match record s xo x y sd recordDup with
    | .error e => .error e
    | .ok (s', fval, idx) => .ok ({ s' with fc := s'.fc + 1 }, { fval := fval, fsd := sd, idx := idx })
  match out with
  | .raises => .error .targetError
  | .otherTuple => .error .valueError
  | .scalar y? =>
    if s.he then .error .valueError
    else match y? with
      | some y => fin y none
      | none => .error .valueError
  | .pair y? sd? =>
    if s.he then
      match y?, sd? with
      | some y, some sd => fin y (some sd)
      | _, _ => .error .valueError
    else .error .valueError

/-- `add`: a pre-evaluated observation (`sd` defaults to 1 when the logger keeps noise). -/
def add (s : St) (xo x : Pt) (y : Option Rat) (sd : Option (Option Rat)) : Except Err (St × Ret) :=
  let sdEff : Option (Option Rat) :=          -- none = no noise kept; some none = invalid SD
    if s.noise then (match sd with | none => some (some 1) | some v => some v) else none
  match y with
  | none => .error .valueError
  | some yv =>
    match sdEff with
    | some none => .error .valueError
    | some (some sdv) =>
      (match record { s with cacheCount := s.cacheCount + 1 } xo x yv (some sdv) true with
       | .error e => .error e
       | .ok (s', fval, idx) => .ok (s', { fval := fval, fsd := some sdv, idx := idx }))
    | none =>
      (match record { s with cacheCount := s.cacheCount + 1 } xo x yv none true with
       | .error e => .error e
       | .ok (s', fval, idx) => .ok (s', { fval := fval, fsd := none, idx := idx }))

/-- Operations of the state machine. -/
inductive Op where
  | call (xo x : Pt) (out : Outcome) (recordDup : Bool)
  | add (xo x : Pt) (y : Option Rat) (sd : Option (Option Rat))
deriving Repr

def step (s : St) : Op → Except Err (St × Ret)
  | .call xo x out rd => call s xo x out rd
  | .add xo x y sd => add s xo x y sd

/-- Run a sequence; a failing operation leaves the state unchanged and the run continues
    (the harness does the same with the real object). -/
def runOps (s : St) : List Op → St
  | [] => s
  | op :: ops => match step s op with
    | .ok (s', _) => runOps s' ops
    | .error _ => runOps s ops

end Bads.Log
