/-
  Incumbent / history / final-estimate bookkeeping of `BADS.optimize` for all noise modes
  (bads.py l.1284, l.1339-1411, l.1428-1494; `_search_step_` l.1724-1791; `_poll_step_`
  l.2106-2156; `_re_evaluate_history_`), after the `fix:` commits in known_findings.json.

  ORACLE per event: the evaluated point `u`, the value `y` the logger returned for it, and the GP
  estimates `(f, sd)` of the target there (`f = y`, `sd = 0` for deterministic targets); after each
  poll iteration the re-estimated `(fval, fsd)` of every recorded iterate; for the final choice the
  quantile values `q_i = fval_i + σ·fsd_i` and the fresh samples.
  With `improvement_quantile = 0.5` the improvement is exactly `fval - f`.
-/
import BadsModel.Num
namespace Bads.Noisy

/-- One evaluated candidate: point, logged value, GP mean and SD at the point. -/
structure Cand where
  u : Pt
  y : Rat
  f : Rat
  sd : Rat
deriving Repr, DecidableEq

/-- A recorded iterate. -/
structure HRow where
  u : Pt
  yval : Rat
  fval : Rat
  fsd : Rat
deriving Repr, DecidableEq

structure St where
  u : Pt
  uBest : Pt
  yval : Rat
  fval : Rat
  fsd : Rat
  hist : List HRow        -- index = poll iteration
deriving Repr

def move (s : St) (c : Cand) : St := { s with u := c.u, uBest := c.u, yval := c.y, fval := c.f, fsd := c.sd }

/-- Search step: move iff the improvement over the incumbent estimate is positive. -/
def searchUpdate (s : St) : Option Cand → St
  | none => s
  | some c => if s.fval - c.f > 0 then move s c else s

def pollBest (fval : Rat) : List Cand → Rat → Option Cand → Rat × Option Cand
  | [], best, arg => (best, arg)
  | c :: cs, best, arg => if fval - c.f > best then pollBest fval cs (fval - c.f) (some c) else pollBest fval cs best arg

/-- Poll step (entered with `u := u_best`, l.1284). -/
def pollUpdate (s : St) (cs : List Cand) : St :=
  let s := { s with u := s.uBest }
  match pollBest s.fval cs 0 none with
  | (best, some c) => if best > 0 then move s c else s
  | (_, none) => s

def setAt {α : Type} (l : List α) (i : Nat) (a : α) : List α :=
  if i < l.length then l.set i a else l ++ [a]

/-- l.1340-1370: record the iterate of poll iteration `it`. -/
def recordIter (s : St) (it : Nat) : St :=
  { s with hist := setAt s.hist it { u := s.u, yval := s.yval, fval := s.fval, fsd := s.fsd } }

/-- `_re_evaluate_history_`: overwrite `(fval, fsd)` of every recorded iterate by the oracle values. -/
def reEstimate (hist : List HRow) (vals : List (Rat × Rat)) : List HRow :=
  List.zipWith (fun r v => { r with fval := v.1, fsd := v.2 }) hist vals ++ hist.drop vals.length

/-- first index (≥ 1) maximising `key`, over rows `1..` -/
def argmaxFrom1 (keys : List Rat) : Option (Nat × Rat) :=
  let rec go : List Rat → Nat → Option (Nat × Rat) → Option (Nat × Rat)
    | [], _, acc => acc
    | k :: ks, i, none => go ks (i + 1) (some (i, k))
    | k :: ks, i, some (j, m) => if k > m then go ks (i + 1) (some (i, k)) else go ks (i + 1) (some (j, m))
  go (keys.drop 1) 1 none

/-- l.1373-1411: after a poll iteration `it > 0` of a noisy run: re-estimate, reload the current
    iterate, and swap to an earlier iterate that now looks better by more than `tolFun`. -/
def reEvalSwap (s : St) (it : Nat) (vals : List (Rat × Rat)) (tolFun : Rat) : St :=
  let hist := reEstimate s.hist vals
  match hist[it]? with
  | none => { s with hist := hist }
  | some cur =>
    let s1 : St := { s with hist := hist, yval := cur.yval, fval := cur.fval, fsd := cur.fsd }
    match argmaxFrom1 (hist.map (fun r => s1.fval - r.fval)) with
    | some (i, impr) =>
      if impr > tolFun then
        match hist[i]? with
        | some r => { s1 with yval := r.yval, fval := r.fval, fsd := r.fsd, u := r.u, uBest := r.u }
        | none => s1
      else s1
    | none => s1

/-- One loop iteration of a noisy run. -/
structure Iter where
  search : Option (Option Cand)     -- none: no search this iteration; some none: empty search set
  poll : Option (List Cand)         -- none: no poll this iteration
  it : Nat                          -- poll_iteration during this loop iteration
  finished : Bool
  reVals : Option (List (Rat × Rat))  -- re-estimated values when the re-evaluation block ran
deriving Repr

def iterStep (tolFun : Rat) (s : St) (i : Iter) : St :=
  let s1 := match i.search with | some c => searchUpdate s c | none => s
  let s2 : St := { s1 with u := s1.uBest }
  let s3 := match i.poll with | some cs => pollUpdate s2 cs | none => s2
  let s4 := if i.poll.isSome || i.finished then recordIter s3 i.it else s3
  match i.reVals with
  | some vals => if i.poll.isSome then reEvalSwap s4 i.it vals tolFun else s4
  | none => s4

/-- first index (≥ 1) minimising `q` -/
def argminFrom1 (qs : List Rat) : Option Nat :=
  (argmaxFrom1 (qs.map (fun q => -q))).map (·.1)

/-- l.1428-1455: final choice among the recorded iterates (by the quantile values `qs`). -/
def finalChoice (s : St) (vals : List (Rat × Rat)) (qs : List Rat) : St :=
  let hist := reEstimate s.hist vals
  match argminFrom1 qs with
  | some i =>
    match hist[i]? with
    | some r => { s with hist := hist, yval := r.yval, fval := r.fval, fsd := r.fsd, u := r.u, uBest := r.u }
    | none => { s with hist := hist }
  | none => { s with hist := hist }

/-- l.931-939: the target is treated as stochastic iff two evaluations at the start point differ
    by more than `tol_noise`. -/
def noiseDetected (y1 y2 tolNoise : Rat) : Bool := decide (y1 - y2 > tolNoise) || decide (y2 - y1 > tolNoise)

def sumL : List Rat → Rat
  | [] => 0
  | x :: xs => x + sumL xs

/-- l.1457-1491: `yval_vec` from the fresh samples (supplemented by the iterate's own observation
    when only one sample is configured), its mean, and `n²·fsd² = Σ (y - mean)²` (population SD / √n). -/
def yvalVec (s : St) (samples : List Rat) : List Rat :=
  if samples.length = 1 then samples ++ [s.yval] else samples

def meanOf (ys : List Rat) : Rat := sumL ys / ys.length

def sqDev (ys : List Rat) : Rat := sumL (ys.map (fun y => (y - meanOf ys) * (y - meanOf ys)))

end Bads.Noisy
