/-
  One call of `BADS.optimize()` from the constructed start point to the returned result, in any noise mode:

    * INIT   (`_init_mesh_` l.912-1033, `_init_optimization_` l.1048-1096): the start point is evaluated, a deterministic-by-declaration
             target is evaluated there once more (noise test, not recorded), the snapped initial design goes through the candidate filter
             and every survivor is evaluated, the incumbent is the first minimum of the log, the noisy reserve is set aside;
    * LOOP   `Full.run` (FullRun.lean) with the budget that is left after the reserve;
    * FINAL  (l.1428-1494): for noisy targets the returned iterate is chosen among the recorded ones and re-sampled
             `noise_final_samples` times (not recorded).

  The result carries the COMPLETE sequence of target calls `(point, record_duplicate_data)` of the run.

  ORACLE: the values the logger returned, whether an evaluation created a new log row, the snapped Sobol design, the SD logged at the
  best initial row (specified noise), the per-iteration oracle of `Full`, the re-estimated history, the quantile values and the fresh
  final observations.
-/
import BadsModel.FullRun
import BadsModel.Incumbent
namespace Bads.Opt

structure Env where
  full : Full.Env          -- `full.o.budget` is the USER's `max_fun_evals`; the loop runs on what is left after the reserve
  unc0 : Nat               -- uncertainty_handling_level after construction: 0 (to be tested), 1 (declared), 2 (specified noise)
  tolNoise : Rat
  funEvalStart : Nat       -- options['fun_eval_start'] as configured
  nfs : Nat                -- options['noise_final_samples'] as configured
  noiseSize : Rat          -- options['noise_size'] (1 when left unset)
  stallIters0 : Nat        -- options['tol_stall_iters'] as configured
  h0 : Rat                 -- search mesh size at the start
  msi0 : Int               -- mesh_size_integer at the start

structure InitOrc where
  u0 : Pt                        -- the gridised, checked start point (`Pipe.construct`)
  y0 : Rat                       -- value returned for the start point
  y0bis : Rat                    -- value returned by the noise test
  design : List Pt               -- `init_sobol` output after `force_to_grid` (the filter's input)
  vals : List (Rat × Bool)       -- for every evaluated design point: returned value, created a new log row
  sdAtMin : Rat                  -- specified noise: the SD logged at the best initial row

structure FinalOrc where
  reVals : List (Rat × Rat)
  qs : List Rat
  samples : List Rat

/-- the log rows `(X, Y)` after one more recorded evaluation: a new row, or (specified noise, repeated point) the FIRST row of that point
    now holds the merged value, which is what the logger returned -/
def updRows : List (Pt × Rat) → Pt → Rat → Bool → List (Pt × Rat)
  | rows, u, y, true => rows ++ [(u, y)]
  | [], _, _, false => []
  | r :: rs, u, y, false => if r.1 == u then (u, y) :: rs else r :: updRows rs u y false

def zip3 : List Pt → List (Rat × Bool) → List (Pt × Rat × Bool)
  | u :: us, v :: vs => (u, v.1, v.2) :: zip3 us vs
  | _, _ => []

def foldRows (rows : List (Pt × Rat)) : List (Pt × Rat × Bool) → List (Pt × Rat)
  | [] => rows
  | e :: es => foldRows (updRows rows e.1 e.2.1 e.2.2) es

/-- uncertainty level after the noise test -/
def uncOf (e : Env) (io : InitOrc) : Nat :=
  if e.unc0 < 1 then (if Noisy.noiseDetected io.y0 io.y0bis e.tolNoise then 1 else 0) else e.unc0

/-- `fun_eval_start` as used: at least 20 (at most the budget) for noisy targets; never more than `max_fun_evals - 1` -/
def nDesign (e : Env) (io : InitOrc) : Nat :=
  let fes := if uncOf e io > 0 then min (max 20 e.funEvalStart) e.full.o.budget else e.funEvalStart
  min fes (e.full.o.budget - 1)

/-- `int(np.ceil(np.log2(n)))` for `n ≥ 1` -/
def clog2 (n : Nat) : Nat := if n ≤ 1 then 0 else Nat.log2 (n - 1) + 1

/-- `init_sobol`: the number of Sobol points actually drawn for a request of `n` - the next power of two, doubled when it equals the
    dimension.  (So the initial design can be larger than `fun_eval_start`.) -/
def sobolCount (n D : Nat) : Nat :=
  if 2 ^ clog2 n = D then 2 ^ (clog2 n + 1) else 2 ^ clog2 n

/-- the initial-design evaluations: every survivor of the filtered (snapped) design, with its oracle values -/
def designEvals (e : Env) (io : InitOrc) : List (Pt × Rat × Bool) :=
  if nDesign e io > 0 then
    zip3 (filterCode (Pipe.filterIn e.full.pipe true e.h0 (io.design.take (sobolCount (nDesign e io) e.full.o.D)) [io.u0])) io.vals
  else []

structure Init where
  calls : List (Pt × Bool)
  pairs : List (Pt × Rat)
  rows : List (Pt × Rat)
  unc : Nat
  nfsEff : Nat
  o : Ctl.Opts
  ns : Noisy.St
deriving Repr

def initCalls (e : Env) (io : InitOrc) : List (Pt × Bool) :=
  [(io.u0, true)] ++ (if e.unc0 < 1 then [(io.u0, false)] else []) ++ (designEvals e io).map (fun d => (d.1, true))

def initPairs (e : Env) (io : InitOrc) : List (Pt × Rat) :=
  [(io.u0, io.y0)] ++ (if e.unc0 < 1 then [(io.u0, io.y0bis)] else []) ++ (designEvals e io).map (fun d => (d.1, d.2.1))

def initRows (e : Env) (io : InitOrc) : List (Pt × Rat) := foldRows [(io.u0, io.y0)] (designEvals e io)

/-- `_init_mesh_` + `_init_optimization_` -/
def init (e : Env) (io : InitOrc) : Init :=
  let unc := uncOf e io
  let calls := initCalls e io
  let rows := initRows e io
  let best := (Inc.argminFirst rows).getD (io.u0, io.y0)
  let nfsEff := if unc > 0 then min e.nfs (e.full.o.budget - calls.length) else 0
  let fsd := if unc > 1 then io.sdAtMin else if unc = 1 then e.noiseSize else 0
  { calls := calls, pairs := initPairs e io, rows := rows, unc := unc, nfsEff := nfsEff,
    o := { e.full.o with budget := e.full.o.budget - nfsEff, stallIters := if unc > 0 then 2 * e.stallIters0 else e.stallIters0 },
    ns := { u := best.1, uBest := best.1, yval := best.2, fval := best.2, fsd := fsd, hist := [] } }

def loopEnv (e : Env) (i : Init) : Full.Env := { e.full with o := i.o }

def loopStart (e : Env) (i : Init) : Full.St :=
  { pairs := i.pairs, ns := i.ns, ctl := Ctl.init i.o i.calls.length i.rows.length e.msi0 }

structure Result where
  calls : List (Pt × Bool)       -- every target call of the run, in order, with its record flag
  u : Pt                         -- the returned point (internal coordinates)
  yvec : List Rat                -- yval_vec
  fval : Rat
  funcCount : Nat
  loop : Full.St                 -- state at loop exit
deriving Repr

/-- the returned iterate -/
def finalNs (i : Init) (s : Full.St) (fo : FinalOrc) : Noisy.St :=
  if i.unc > 0 ∧ s.ctl.c.pollIter > 0 then Noisy.finalChoice s.ns fo.reVals fo.qs else s.ns

def finish (i : Init) (s : Full.St) (fo : FinalOrc) : Result :=
  let ns1 := finalNs i s fo
  let k := i.nfsEff
  let loopCalls := (s.pairs.drop i.pairs.length).map (fun p => (p.1, true))
  let samples := fo.samples.take k
  { calls := i.calls ++ loopCalls ++ List.replicate k (ns1.u, false),
    u := ns1.u,
    yvec := if k > 0 then Noisy.yvalVec ns1 samples else [ns1.yval],
    fval := if k > 0 then Noisy.meanOf (Noisy.yvalVec ns1 samples) else ns1.fval,
    funcCount := s.ctl.c.fc + k,
    loop := s }

/-- `optimize()` -/
def optimize (e : Env) (io : InitOrc) (qs : List Full.Orc) (fo : FinalOrc) : Result :=
  let i := init e io
  finish i (Full.run (loopEnv e i) qs (loopStart e i)) fo

end Bads.Opt
