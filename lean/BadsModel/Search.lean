/-
  Search step: `ESSearch.__call__` accumulate / sort / select (es_search.py l.150-210), the
  rank-selection mask `_get_selection_idx_mask_` (l.45-70), the hedge probabilities and draw of
  `ESSearchHedge.__call__` (search_hedge.py l.55-70).
  ORACLE: the candidate populations (after feasibility filtering) with their acquisition values,
  the integer weights `ceil(λ·(1/√i)/Σ(1/√j))`, the exponential scores `exp(β(g - max g))`, the
  uniform draw.
-/
import BadsModel.Num
namespace Bads.Srch

/-- a surviving candidate with its acquisition (LCB) value -/
abbrev Cand := Pt × Rat

def insertBy (a : Cand) : List Cand → List Cand
  | [] => [a]
  | b :: bs => if a.2 ≤ b.2 then a :: b :: bs else b :: insertBy a bs

def sortZ : List Cand → List Cand
  | [] => []
  | a :: as => insertBy a (sortZ as)

/-- After generation `i` the strategy keeps the best `min(total, λ)` of ALL candidates accumulated
    so far (`us_candidates` is never truncated), and finally proposes the first one. -/
def esKeep (lam : Nat) (gens : List (List Cand)) : List Cand :=
  let all := gens.flatten
  (sortZ all).take (min all.length lam)

def esResult (lam : Nat) (gens : List (List Cand)) : Option Cand := (esKeep lam gens).head?

/-! ### rank-selection mask -/

def sumN : List Nat → Nat
  | [] => 0
  | x :: xs => x + sumN xs

/-- exclusive prefix sums + 1: `cw = cumsum(w) - w + 1` -/
def starts : List Nat → Nat → List Nat
  | [], _ => []
  | w :: ws, acc => (acc + 1) :: starts ws (acc + w)

/-- `idx = zeros(max(cw)+1); idx[cw] = 1` as a 0/1 list of length `max(cw)+1` -/
def marks (cw : List Nat) : List Nat :=
  let m := cw.foldl max 0
  (List.range (m + 1)).map (fun i => if cw.contains i then 1 else 0)

def cumsum : List Nat → Nat → List Nat
  | [], _ => []
  | x :: xs, acc => (acc + x) :: cumsum xs (acc + x)

/-- `select_mask = cumsum(idx[0:-1])` for final integer weights `w` -/
def maskOf (w : List Nat) : List Nat :=
  let idx := marks (starts w 0)
  cumsum idx.dropLast 0

/-- the weight-reduction loop of `_get_selection_idx_mask_` (l.52-59) on integer weights -/
def reduceOnce (w : List Nat) : List Nat := w.map (fun x => x - 1)

def reduceLoop : Nat → List Nat → Nat → List Nat
  | 0, w, _ => w
  | fuel + 1, w, lam =>
    let nonzero := (w.filter (· > 0)).length
    if sumN w > lam + nonzero then reduceLoop fuel (reduceOnce w) lam else w

def lastNonzero (w : List Nat) : Option Nat :=
  ((List.range w.length).filter (fun i => w.getD i 0 > 0)).getLast?

def finalWeights (w0 : List Nat) (lam : Nat) : List Nat :=
  let w := reduceLoop (sumN w0 + 1) w0 lam
  let delta := sumN w - lam
  match lastNonzero w with
  | none => w
  | some last =>
    let strt := (last + 1) - delta
    (List.range w.length).map (fun i => if strt ≤ i ∧ i ≤ last then w.getD i 0 - 1 else w.getD i 0)

def selectionMask (w0 : List Nat) (lam : Nat) : List Nat := maskOf (finalWeights w0 lam)

/-! ### hedge -/

def sumQ : List Rat → Rat
  | [] => 0
  | x :: xs => x + sumQ xs

/-- `prob = e / sum(e) * (1 - n*gamma) + gamma` -/
def hedgeProbs (e : List Rat) (gamma : Rat) : List Rat :=
  e.map (fun ei => ei / sumQ e * (1 - (e.length : Rat) * gamma) + gamma)

/-- `np.argwhere(r < np.cumsum(prob))[0]` -/
def choose (r : Rat) : List Rat → Rat → Nat → Option Nat
  | [], _, _ => none
  | p :: ps, acc, i => if r < acc + p then some i else choose r ps (acc + p) (i + 1)

end Bads.Srch
