/-
  Numbers used by the models.

  Every finite binary64 value is a dyadic rational; the harness sends floats as exact
  rationals, so the models compute on `Rat`.  `Ext` adds the non-finite IEEE values that
  pybads handles explicitly (`±inf` bounds of unbounded coordinates, `NaN` for an absent
  start point).  Comparisons on `Ext` follow IEEE-754: every comparison with NaN is false.
-/
namespace Bads

/-- numpy `round`: round half to even. -/
def roundHE (x : Rat) : Int :=
  let f := x.floor
  let d := x - f
  if d < 1/2 then f
  else if d > 1/2 then f + 1
  else if f % 2 = 0 then f else f + 1

/-- `tol * np.round(x / tol)` (`grid_functions.force_to_grid`). -/
def forceToGrid (h x : Rat) : Rat := h * roundHE (x / h)

/-- A point in internal or original coordinates. -/
abbrev Pt := List Rat

inductive Ext where
  | fin (q : Rat)
  | pinf
  | ninf
  | nan
deriving DecidableEq, Repr, Inhabited

namespace Ext

def isFinite : Ext → Bool
  | fin _ => true
  | _ => false

def isNan : Ext → Bool
  | nan => true
  | _ => false

def isInf : Ext → Bool
  | pinf => true
  | ninf => true
  | _ => false

/-- IEEE `a <= b`. -/
def le : Ext → Ext → Bool
  | nan, _ => false
  | _, nan => false
  | fin a, fin b => decide (a ≤ b)
  | ninf, _ => true
  | _, pinf => true
  | _, _ => false

/-- IEEE `a < b`. -/
def lt : Ext → Ext → Bool
  | nan, _ => false
  | _, nan => false
  | fin a, fin b => decide (a < b)
  | ninf, ninf => false
  | ninf, _ => true
  | pinf, pinf => false
  | _, pinf => true
  | _, _ => false

/-- IEEE `a == b`. -/
def eq : Ext → Ext → Bool
  | fin a, fin b => decide (a = b)
  | pinf, pinf => true
  | ninf, ninf => true
  | _, _ => false

/-- `np.maximum` (NaN-propagating). -/
def max (a b : Ext) : Ext :=
  if a.isNan then nan else if b.isNan then nan else if le a b then b else a

/-- `np.minimum` (NaN-propagating). -/
def min (a b : Ext) : Ext :=
  if a.isNan then nan else if b.isNan then nan else if le a b then a else b

end Ext

/-- `x ≥ lo` where `lo` is a lower bound: a finite number or `-inf`. -/
def geLo (lo : Ext) (x : Rat) : Prop :=
  match lo with
  | .fin a => a ≤ x
  | .ninf => True
  | _ => False

/-- `x ≤ hi` where `hi` is an upper bound: a finite number or `+inf`. -/
def leHi (hi : Ext) (x : Rat) : Prop :=
  match hi with
  | .fin b => x ≤ b
  | .pinf => True
  | _ => False

instance (lo : Ext) (x : Rat) : Decidable (geLo lo x) := by
  unfold geLo; cases lo <;> infer_instance
instance (hi : Ext) (x : Rat) : Decidable (leHi hi x) := by
  unfold leHi; cases hi <;> infer_instance

/-- A lower bound is a finite number or `-inf`; an upper bound a finite number or `+inf`. -/
def isLo : Ext → Bool
  | .fin _ => true
  | .ninf => true
  | _ => false
def isHi : Ext → Bool
  | .fin _ => true
  | .pinf => true
  | _ => false

/-- `lo ≤ hi` for a lower and an upper bound. -/
def loLeHi : Ext → Ext → Bool
  | .fin a, .fin b => decide (a ≤ b)
  | _, _ => true

/-- A well-formed box: equal lengths, lower bounds finite or `-inf`, upper bounds finite or
    `+inf`, and `lo ≤ hi` in every coordinate. -/
def boxOK : List Ext → List Ext → Bool
  | [], [] => true
  | l :: lo, h :: hi => isLo l && isHi h && loLeHi l h && boxOK lo hi
  | _, _ => false

/-- `np.maximum(np.minimum(x, hi), lo)` for a finite `x`. -/
def clampE (lo hi : Ext) (x : Rat) : Rat :=
  let y := match hi with
    | .fin b => if x ≤ b then x else b
    | _ => x
  match lo with
    | .fin a => if y ≤ a then a else y
    | _ => y

def inBoxB : List Ext → List Ext → Pt → Bool
  | [], [], [] => true
  | l :: lo, h :: hi, x :: p => decide (geLo l x) && decide (leHi h x) && inBoxB lo hi p
  | _, _, _ => false

/-- `p` lies in the box `[lo, hi]` (same length, every coordinate within its bounds). -/
def InBox (lo hi : List Ext) (p : Pt) : Prop := inBoxB lo hi p = true

instance (lo hi : List Ext) (p : Pt) : Decidable (InBox lo hi p) := by
  unfold InBox; infer_instance

end Bads
