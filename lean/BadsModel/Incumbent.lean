/-
  Incumbent bookkeeping for DETERMINISTIC targets (noise level 0, default improvement policy:
  `sloppy_improvement = True`, `improvement_quantile = 0.5`, `stobads = False`).

  Code: initial incumbent `_init_mesh_` l.1015-1020 (`argmin` of the logged values);
  `_eval_improvement_` with `q = 0.5`: `z = fval - y` (sign exact in binary64);
  search move l.1737-1791 (`improvement > 0`); poll running best l.2106-2126 and move
  l.2144-2156; `_update_incumbent_`; result `x = inverse_transf(u)`, `fval`.
  Which points get evaluated is oracle; the target is an arbitrary function of the point
  (the values `y` below are what it returned).
-/
import BadsModel.Num
namespace Bads.Inc

structure St where
  u : Pt
  fval : Rat
deriving Repr, DecidableEq

/-- `np.argmin` over the logged values: first minimal entry. -/
def argminFirst : List (Pt × Rat) → Option (Pt × Rat)
  | [] => none
  | e :: es =>
    match argminFirst es with
    | none => some e
    | some m => if m.2 < e.2 then some m else some e

/-- Initial incumbent after the initial design. -/
def initInc (evs : List (Pt × Rat)) : Option St := (argminFirst evs).map (fun e => { u := e.1, fval := e.2 })

/-- Search step: one evaluation (or none when the search set was empty). -/
def searchUpdate (s : St) : Option (Pt × Rat) → St
  | none => s
  | some (u, y) => if s.fval - y > 0 then { u := u, fval := y } else s

/-- Running best of the poll loop: `(best improvement, best point)`; strict `>`. -/
def pollBest (fval : Rat) : List (Pt × Rat) → Rat → Option (Pt × Rat) → Rat × Option (Pt × Rat)
  | [], best, arg => (best, arg)
  | (u, y) :: es, best, arg =>
    if fval - y > best then pollBest fval es (fval - y) (some (u, y)) else pollBest fval es best arg

/-- Poll step: move to the best polled point iff its improvement is positive. -/
def pollUpdate (s : St) (evs : List (Pt × Rat)) : St :=
  match pollBest s.fval evs 0 none with
  | (best, some (u, y)) => if best > 0 then { u := u, fval := y } else s
  | (_, none) => s

inductive Ev where
  | search (e : Option (Pt × Rat))
  | poll (es : List (Pt × Rat))
deriving Repr

def evalsOf : Ev → List (Pt × Rat)
  | .search none => []
  | .search (some e) => [e]
  | .poll es => es

def step (s : St) : Ev → St
  | .search e => searchUpdate s e
  | .poll es => pollUpdate s es

def run (s : St) : List Ev → St
  | [] => s
  | e :: es => run (step s e) es

/-- Incumbent value after each event (what `iteration_history['fval']` samples). -/
def fvals (s : St) : List Ev → List Rat
  | [] => []
  | e :: es => (step s e).fval :: fvals (step s e) es

end Bads.Inc
