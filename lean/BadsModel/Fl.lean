/-
  binary64 round-to-nearest-even as a function on rationals (executable; validated
  differentially against Python floats on every run of the C08/C11 checks).
  Normal range only (no overflow to inf, no subnormals): the harness keeps inputs there.
-/
import BadsModel.Num
namespace Bads.Fl

/-- floor(log2 q) for q > 0, by searching (fuel-bounded). -/
def ilog2Pos (q : Rat) : Int :=
  -- start from the bit lengths of numerator and denominator, then adjust by at most one step
  let e0 : Int := (Nat.log2 q.num.natAbs : Int) - (Nat.log2 q.den : Int)
  let p (e : Int) : Rat := if e ≥ 0 then ((2 ^ e.toNat : Nat) : Rat) else 1 / ((2 ^ (-e).toNat : Nat) : Rat)
  if q < p e0 then e0 - 1 else if q ≥ p (e0 + 1) then e0 + 1 else e0

def pow2 (e : Int) : Rat := if e ≥ 0 then ((2 ^ e.toNat : Nat) : Rat) else 1 / ((2 ^ (-e).toNat : Nat) : Rat)

/-- round to nearest binary64 (53-bit significand), ties to even -/
def rn (q : Rat) : Rat :=
  if q = 0 then 0 else
  let a := if q < 0 then -q else q
  let e := ilog2Pos a            -- 2^e ≤ a < 2^(e+1)
  let ulp := pow2 (e - 52)
  let m := roundHE (a / ulp)
  let r := (m : Rat) * ulp
  if q < 0 then -r else r

def add (a b : Rat) : Rat := rn (a + b)
def sub (a b : Rat) : Rat := rn (a - b)
def mul (a b : Rat) : Rat := rn (a * b)
def div (a b : Rat) : Rat := rn (a / b)

end Bads.Fl
