import Driver.Proto
import Driver.CmdFilter
import Driver.CmdCtl
import Driver.CmdLog
import Driver.CmdPipe
import Driver.CmdPoll
import Driver.CmdInc
import Driver.CmdNoisy
import Driver.CmdHist
import Driver.CmdVal
import Driver.CmdTr
import Driver.CmdGP
import Driver.CmdSrch
import Driver.CmdOpt
import Driver.CmdDef
import Driver.CmdDet
import Driver.CmdFull
import Driver.CmdWhole
import Driver.CmdSur
open Lean Driver

def dispatch (cmd : String) (j : Json) : R Json :=
  match cmd with
  | "ping" => pure (Json.str "pong")
  | "filter" => cmdFilter j
  | "prop.filter" => cmdPropFilter j
  | "ctl.replay" => cmdCtlReplay j
  | "log.run" => cmdLogRun j
  | "pipe.run" => cmdPipeRun j
  | "det.replay" => cmdDetReplay j
  | "full.replay" => cmdFullReplay j
  | "whole.replay" => cmdWholeReplay j
  | "mesh.bounds" => cmdMeshBounds j
  | "poll.dirs" => cmdPollDirs j
  | "prop.dirs" => cmdPropDirs j
  | "inc.run" => cmdIncRun j
  | "noisy.run" => cmdNoisyRun j
  | "hist.run" => cmdHistRun j
  | "res.run" => cmdResRun j
  | "val.run" => cmdValRun j
  | "fl.ops" => cmdFlOps j
  | "tr.coord" => cmdTrCoord j
  | "gp.neighbors" => cmdGpNeighbors j
  | "gp.robust" => cmdGpRobust j
  | "gp.run" => cmdGpRun j
  | "sur.jrun" => cmdSurJrun j
  | "srch.es" => cmdSrchEs j
  | "srch.mask" => cmdSrchMask j
  | "srch.hedge" => cmdSrchHedge j
  | "opt.load" => cmdOptLoad j
  | "def.check" => cmdDefCheck j
  | _ => throw s!"unknown command '{cmd}'"

def handleLine (line : String) : String :=
  match Json.parse line with
  | .error e => (Json.mkObj [("error", Json.str s!"parse: {e}")]).compress
  | .ok j =>
    let r : R Json := do
      let c ← asStr (← field j "cmd")
      dispatch c j
    match r with
    | .ok v => (Json.mkObj [("ok", v)]).compress
    | .error e => (Json.mkObj [("error", Json.str e)]).compress

partial def loop (h : IO.FS.Stream) (out : IO.FS.Stream) : IO Unit := do
  let line ← h.getLine
  if line.isEmpty then return ()
  if line.trimAscii.isEmpty then loop h out else
  out.putStrLn (handleLine line)
  loop h out

def main : IO Unit := do
  let out ← IO.getStdout
  loop (← IO.getStdin) out
  out.flush
