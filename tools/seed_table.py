#!/usr/bin/env python3
"""Print the markdown table of DESIGN.md section 12 from seeded/*/meta.json (and matrix.json if present)."""
import json, glob, os
HERE = os.path.dirname(os.path.dirname(os.path.abspath(__file__)))
rows = []
for d in sorted(glob.glob(os.path.join(HERE, "seeded", "*"))):
    mp = os.path.join(d, "meta.json")
    if not os.path.exists(mp):
        continue
    m = json.load(open(mp))
    ck = m.get("checks", {})
    det = ck.get("detected_with_failing_input") or []
    nf = [p for p in (ck.get("detected_by") or []) if p not in det]
    cell = ", ".join(det) + ((" (" + ", ".join(nf) + " without failing input)") if nf else "")
    files = ", ".join(os.path.basename(f) for f in m.get("files_touched", []))
    rows.append(f"| {m['id']} | {files} | {m.get('needs_to_manifest', '')} | {cell or 'MISSED'} |")
print("| seed | file(s) | what the change is / what it needs to manifest | caught by (quick tier, failing input reported) |")
print("|---|---|---|---|")
print("\n".join(rows))
