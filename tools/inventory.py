#!/usr/bin/env python3
"""Print the theorem inventory per property (names from lean/BadsProofs/Props/*.lean) as markdown."""
import os, re, sys
sys.path.insert(0, os.path.dirname(os.path.dirname(os.path.abspath(__file__))))
from harness import build as B
d = os.path.join(B.LEAN_DIR, "BadsProofs", "Props")
for pid in [f"C{i:02d}" for i in range(1, 21)]:
    mods = B.prop_modules(pid) if os.path.exists(os.path.join(d, pid + ".lean")) else []
    if not mods:
        continue
    names = []
    for m in mods:
        names += [t.split(".")[-1] for t in B.theorems_of(os.path.join(d, m + ".lean"))]
    print(f"* **{pid}** ({', '.join(m + '.lean' for m in mods)}; {len(names)} theorems): " + ", ".join(f"`{n}`" for n in names))
