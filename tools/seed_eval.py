#!/usr/bin/env python3
"""Evaluate a seeded change: apply <dir>/patch.diff to /repo, run the given checks (default: all claimed), restore /repo.

usage: tools/seed_eval.py seeded/<id> [Cxx ...] [--tier quick|thorough]
Writes <dir>/eval.json: which checks raised a VIOLATION (and whether with a failing input)."""
import json, os, subprocess, sys, time
HERE = os.path.dirname(os.path.dirname(os.path.abspath(__file__)))


def main():
    args = [a for a in sys.argv[1:] if not a.startswith("--")]
    tier = "quick"
    if "--tier" in sys.argv:
        tier = sys.argv[sys.argv.index("--tier") + 1]
        args = [a for a in args if a != tier]
    use_wt = "--wt" in sys.argv
    no_write = "--no-write" in sys.argv      # robustness sweeps (other VERIF_SEED values): report only       # evaluate in a scratch worktree through the experiment override VERIF_REPO (several can run at once)
    d = os.path.abspath(args[0])
    pids = args[1:] or [c["property_id"] for c in json.load(open(os.path.join(HERE, "MANIFEST.json")))["checks"]]
    patch = os.path.join(d, "patch.diff")
    target = "/repo"
    env = dict(os.environ)
    if use_wt:
        target = "/tmp/se_" + os.path.basename(d)
        subprocess.run(["git", "-C", "/repo", "worktree", "remove", "--force", target], capture_output=True)
        subprocess.run(["git", "-C", "/repo", "worktree", "add", "-q", "--detach", target, "HEAD"], check=True)
        env["VERIF_REPO"] = target
        env["VERIF_OUT"] = target + "_out"
    st = subprocess.run(["git", "-C", target, "status", "--porcelain", "--untracked-files=no"], capture_output=True, text=True).stdout.strip()
    if st:
        print("refusing: the tree has local modifications:\n" + st)
        sys.exit(2)
    r = subprocess.run(["git", "-C", target, "apply", patch], capture_output=True, text=True)
    if r.returncode != 0:
        print("patch does not apply:", r.stderr)
        sys.exit(2)
    res = {}
    try:
        for pid in pids:
            t0 = time.time()
            p = subprocess.run([os.path.join(HERE, "check"), pid, "--tier", tier], capture_output=True, text=True, cwd=HERE, env=env)
            lines = [l for l in p.stdout.splitlines() if l.startswith("VIOLATION") or l.startswith("  clause=") or l.startswith("  no longer checks") or l.startswith("MACHINERY")]
            res[pid] = {"exit": p.returncode, "violation": any(l.startswith("VIOLATION") for l in lines),
                        "no_failing_input": any("no-failing-input-found" in l for l in lines), "lines": [l[:300] for l in lines][:6], "wall": round(time.time() - t0, 1)}
            print(pid, "exit", p.returncode, "|", (lines[0][:160] if lines else "OK"), flush=True)
            # keep the failing input the seed's own property reported (the replay file named in the first VIOLATION line)
            if not no_write and pid == os.path.basename(d).split("-")[0] and res[pid]["violation"] and not res[pid]["no_failing_input"]:
                import re, shutil
                m = re.search(r"replay=(\S+)", lines[0])
                if m:
                    src = m.group(1) if os.path.isabs(m.group(1)) else os.path.join(HERE, m.group(1))
                    if os.path.exists(src):
                        shutil.copy(src, os.path.join(d, "failing_input.json"))
    finally:
        if use_wt:
            subprocess.run(["git", "-C", "/repo", "worktree", "remove", "--force", target], capture_output=True)
            import shutil as _sh
            _sh.rmtree(target + "_out", ignore_errors=True)
        else:
            subprocess.run(["git", "-C", "/repo", "checkout", "--", "."], check=True)
    out = {"tier": tier, "where": "scratch worktree via VERIF_REPO" if use_wt else "/repo (patch applied, then git checkout -- .)", "results": res, "detected_by": sorted(k for k, v in res.items() if v["violation"]),
           "detected_with_failing_input": sorted(k for k, v in res.items() if v["violation"] and not v["no_failing_input"])}
    if not no_write:
        json.dump(out, open(os.path.join(d, "eval.json"), "w"), indent=1)
    print("detected by:", out["detected_by"], "| with failing input:", out["detected_with_failing_input"])


if __name__ == "__main__":
    main()
