#!/bin/bash
# usage: tools/harmless_eval.sh <patch.diff> [checks...]  - apply a behaviour-preserving patch to /repo, run the quick checks, restore /repo.
# Any VIOLATION / MACHINERY-ERROR printed here is a FALSE ALARM of the machinery.
p=$1; shift
checks=${@:-C01 C02 C03 C04 C05 C07 C08 C09 C10 C11 C12 C13 C14 C15 C16 C17 C18 C19 C20}
[ -n "$(git -C /repo status --porcelain --untracked-files=no)" ] && { echo "refusing: /repo dirty"; exit 2; }
git -C /repo apply "$p" || { echo "PATCH DOES NOT APPLY: $p"; exit 2; }
bad=0
for c in $checks; do
  out=$(/verif/check $c 2>&1 | grep -v "^KNOWN-FINDING"); rc=$?
  if ! echo "$out" | grep -q "^OK property=$c"; then bad=$((bad+1)); echo "--- $c on $p"; echo "$out" | cut -c1-400 | tail -6; fi
done
git -C /repo checkout -- .
echo "== $p: $bad of $(echo $checks | wc -w) checks alarmed"
