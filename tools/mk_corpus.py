#!/usr/bin/env python3
"""Build corpus/<pid>/<seed-id>.json from seeded/<seed-id>/failing_input.json (the failing input the seed's own property check
reported), for the case kinds the property module can replay specifically (CORPUS_KINDS)."""
import glob, importlib, json, os, shutil, sys
HERE = os.path.dirname(os.path.dirname(os.path.abspath(__file__)))
sys.path.insert(0, HERE)
os.environ.setdefault("OMP_NUM_THREADS", "1")
shutil.rmtree(os.path.join(HERE, "corpus"), ignore_errors=True)
n = skipped = 0
for f in sorted(glob.glob(os.path.join(HERE, "seeded", "*", "failing_input.json"))):
    sid = os.path.basename(os.path.dirname(f))
    pid = sid.split("-")[0]
    data = json.load(open(f))
    src = open(os.path.join(HERE, "harness", "props", pid.lower() + ".py")).read()
    import re
    m = re.search(r"^CORPUS_KINDS = (\(.*\))", src, flags=re.M)
    kinds = eval(m.group(1)) if m else ()
    kind = (data.get("case") or {}).get("kind")
    if kind not in kinds:
        skipped += 1
        print("skip", sid, kind)
        continue
    d = os.path.join(HERE, "corpus", pid)
    os.makedirs(d, exist_ok=True)
    data["from_seeded_change"] = sid
    json.dump(data, open(os.path.join(d, sid + ".json"), "w"), indent=1)
    n += 1
print(n, "corpus cases;", skipped, "skipped")
