#!/usr/bin/env python3
"""Write the prompts of the next round of seeded changes (one per claimed property) to /tmp/prompts/<pid>_r<N>.txt.

usage: tools/mk_seed_prompts.py <round-number> <previous-round-letter>      e.g.  tools/mk_seed_prompts.py 7 f
The prompt of round N is the prompt of round N-1 (kept under /tmp/prompts) with the scratch worktree renamed and the previous round's idea
(first clause of the NEEDS entry in tools/seed_meta.py) and touched files (from its patch.diff) added to the "already tried" list.
A sub-agent gets ONLY that text (property statement + task) and its own scratch worktree - nothing from /verif."""
import os, re, sys, importlib.util
HERE = os.path.dirname(os.path.dirname(os.path.abspath(__file__)))
n, prev = int(sys.argv[1]), sys.argv[2]
spec = importlib.util.spec_from_file_location("seed_meta_tbl", os.path.join(HERE, "tools", "seed_meta.py"))
src = open(os.path.join(HERE, "tools", "seed_meta.py")).read()
ns = {}
exec(src[src.index("NEEDS = {"):src.index("}\n", src.index("NEEDS = {")) + 2], ns)
NEEDS = ns["NEEDS"]
words = {2: "One other engineer has", 3: "Two", 4: "Three", 5: "Four", 6: "Five", 7: "Six", 8: "Seven", 9: "Eight", 10: "Nine", 11: "Ten", 12: "Eleven", 13: "Twelve"}
for pid in sorted({k.split("-")[0] for k in NEEDS}):
    p0 = f"/tmp/prompts/{pid}_r{n - 1}.txt"
    if not os.path.exists(p0):
        print("missing", p0); continue
    s = open(p0).read().replace(f"/tmp/w{n - 1}_", f"/tmp/w{n}_")
    idea = NEEDS[f"{pid}-{prev}"].split(";")[0].strip()
    files = sorted(set(re.findall(r"^diff --git a/(\S+)", open(os.path.join(HERE, "seeded", f"{pid}-{prev}", "patch.diff")).read(), re.M)))
    s = s.replace(f"{words[n - 1]} other engineers have", f"{words[n]} other engineers have")
    m = re.search(rf"^{n - 2}\. \".*\"$", s, re.M)
    assert m, (pid, "no idea list")
    s = s[:m.end()] + f"\n{n - 1}. \"{idea}\"" + s[m.end():]
    m = re.search(r"^Their changes touched: (.*?)\. If at all possible", s, re.M)
    assert m, (pid, "no touched list")
    old = [f.strip() for f in m.group(1).split(",")]
    s = s[:m.start(1)] + ", ".join(sorted(set(old) | set(files))) + s[m.end(1):]
    open(f"/tmp/prompts/{pid}_r{n}.txt", "w").write(s)
    print(pid, "->", f"/tmp/prompts/{pid}_r{n}.txt", "| new idea:", idea[:80])
