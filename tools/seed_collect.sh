#!/bin/bash
# usage: tools/seed_collect.sh Cxx [tag]  -> copies /tmp/wt_Cxx/_seed into seeded/Cxx-<tag>, re-confirms the demo (fails with the change /
# passes without) and the test suite with the change, in a scratch worktree that is removed afterwards
set -u
pid=$1; tag=${2:-a}
src=${3:-/tmp/wt_$pid}/_seed
dst=/verif/seeded/$pid-$tag
mkdir -p $dst
cp $src/patch.diff $src/demo.py $dst/ ; cp $src/notes.md $dst/notes.md 2>/dev/null; for f in $src/*.py; do case $(basename $f) in exp*|probe*|scratch*) ;; *) cp $f $dst/ ;; esac; done
wt=/tmp/confirm_$pid
rm -rf $wt; git -C /repo worktree prune; git -C /repo worktree add -q --detach $wt HEAD
cd $wt && mkdir -p _seed && cp $dst/*.py _seed/
export OMP_NUM_THREADS=1
/venv/bin/python _seed/demo.py > $dst/demo_without.log 2>&1; r0=$?
git apply $dst/patch.diff || { echo "PATCH DOES NOT APPLY"; exit 2; }
/venv/bin/python _seed/demo.py > $dst/demo_with.log 2>&1; r1=$?
/venv/bin/python -m pytest -q -p no:cacheprovider --timeout=900 > $dst/tests_with.log 2>&1; rt=$?
tail -1 $dst/tests_with.log
echo "demo without change: exit $r0; with change: exit $r1; tests with change: exit $rt"
cd /verif; git -C /repo worktree remove --force $wt
echo "{\"demo_exit_without\": $r0, \"demo_exit_with\": $r1, \"tests_exit_with\": $rt}" > $dst/confirm.json
