#!/usr/bin/env python3
"""Rewrite section 12 of DESIGN.md (seeded changes) from seeded/*/meta.json.  Everything after the section-12 heading is replaced."""
import os, subprocess, sys
HERE = os.path.dirname(os.path.dirname(os.path.abspath(__file__)))
p = os.path.join(HERE, "DESIGN.md")
s = open(p).read()
head = "## 12. Seeded changes (independent sub-agents) and which checks catch them\n"
i = s.index(head)
table = subprocess.run([sys.executable, os.path.join(HERE, "tools", "seed_table.py")], capture_output=True, text=True).stdout
text = head + """
Twelve rounds of 19 fresh sub-agents each and a thirteenth of 10 (238 changes). Every agent got only the text of one property and its own scratch
git worktree of /repo under /tmp (nothing from /verif; rounds 2-12 were additionally told which ideas had already
been used for that property, so that the ten changes per property differ in mechanism (rounds 5-12 were also asked to stay out of the files and functions the earlier ones had touched)). Each wrote one realistic
regression (a tidy-up, an off-by-one, a moved statement, a swapped argument, ...) that still passes the 88 baseline
tests, plus a stand-alone demonstration. Each change was confirmed by `tools/seed_collect.sh` in a *fresh* scratch
worktree (demo exits 0 on HEAD, 1 with the patch; baseline pytest command passes with the patch) and then evaluated by
`tools/seed_eval.py` (`git -C /repo apply`, run the property's quick check, `git -C /repo checkout -- .`). The changes
live in `seeded/<id>/` (`patch.diff`, `demo.py`, `notes.md`, `confirm.json`, `eval.json`, `meta.json`); none was ever
committed to /repo, all worktrees were removed.

**Result: all 238 were reported by their own property's quick check as `VIOLATION` with a concrete failing input** (not
merely as a broken correspondence); 237 still are - C16-k has since been neutralised by a repair of /repo that its own author's side remark led to (1237b39; `seeded/C16-k/NEUTRALISED.md`). That was not so at first: 9 of the first 19, 14 of the second 19, 13 of the
third 19, 8 of the fourth 19, 11 of the fifth 19, 14 of the sixth 19, 9 of the seventh 19, 11 of the eighth 19, 11 of the ninth 19, 11 of the tenth 19, 8 of the eleventh 19, 7 of the twelfth 19 and 5 of the 10 of round 13 were initially missed or seen only as a broken correspondence. Each miss was a hole in a *generator* or a
missing *clause*, never a reason to weaken a check; what was added (all of it also runs on the unchanged tree):

* round 1: coarse search grids and call provenance (C02), budget stress + reserve correspondence (C03), runs started at
  the optimum (C04), single-sample final estimates (C05), all ordered pairs of per-coordinate cases for D=2 (C08),
  stalling noisy runs + oracle-scripted controller runs (C13), low-D specified-noise runs (C15), empty ES populations
  (C18), log geometries for caller arrays (C20);
* round 2: advanced-option variety in every pool (cache_size, force_poll_mesh, search_n_try, nonlinear_scaling,
  gp_warnings, search_grid_number, fun_eval_start), more exception forms (C10), near-coincident points (C12),
  boundary seeds (C07), integer spellings (C08), large-baseline noise (C05), the incumbent-move primitive (C04),
  provenance of the stall-test inputs (C13), evaluated sets per step (C17), candidates inside the mesh-rounded box
  (C18), `target_type` (C19);
* round 3: `inverse_transf` at the internal bounds +-1 ulp over thousands of bound sets and runs on power-of-ten log
  boxes (C01), budgets that cap the number of final samples (C05), sibling-instance histories (C07), zero hard bounds
  (C08), far-out points on unbounded coordinates (C11), exact ties with the success threshold by oracle scripting (C13),
  non-integer mesh ratios (C14), the surrogate after failed refits (C15), portfolios of 1-6 strategies (C18), edge seeds
  (C19), start points that the constructor has to move (C20), `noise_size` and the other basic options (C04/C09), and
  oracle scripting of the candidate generator - "nothing proposed from the K-th search on" (C03).

* round 4: start points within half a (coarse) search-grid cell of a hard bound (C01), every boolean option toggled in
  constrained runs (C02), failing-input search by re-running a disagreeing run cut short right after the disagreeing step
  (C04), call-dependent reported SDs and the target wrapper's own record of what it returned (C05), the caller's bound
  arrays after constructing a transformer (C11), provenance of the poll's estimates in noisy runs - GP estimate, not raw
  observation (C13), `search_mesh_expand > 0` and the mesh size the poll actually uses (C14), feasibility of the ES's
  survivors judged by the run's own constraint function whatever the strategy's filter was handed (C18).

* round 5: the internal box judged against a FRESH transform of the original bounds (C01: the run's own bound arrays had been
  overwritten), 1-D specified-noise runs with merged repeats (C03), falsy option spellings 0 / numpy.bool_(False) and "a
  deterministic target stays deterministic" (C04), two interpreter processes with different hash randomisation (C07), callers
  that reuse one working array (C12), the poll set after the box filter for incumbents within 1e-12..1e-5 of a bound (C14), a
  new injection point - the posterior update at the end of `local_gp_fitting` (C15), NaN-valued constraint regions with "not
  satisfied = not (value <= 0)" (C17), hedge_beta up to 1000 (C18), `stobads` runs checked against the predicates only (C19),
  mutable option values through a run (C20). Two checker bugs of my own were found on the way: tolerance predicates written as
  `abs(a - b) > tol` let NaN through (now `not (abs(a - b) <= tol)` everywhere), and a transient race in the axiom audit.

* round 6: internal problems compared across equivalent spellings, which exposed a genuine defect (C08: integer-typed bounds truncated by
  the in-place log transform, fixed in 0c72e91); odd and tiny ES populations (C09, C18); three exception kinds per fault position incl.
  StopIteration (C10); positive coordinates bounded on one side only (C11); runs with `accelerate_mesh=False` under scripted stalling (C13);
  `gp_mean_fun` alternatives under injected fit failures (C16); search-step evaluations judged against the box of a fresh transform (C17);
  tables smaller than the initial design in constrained noisy runs (C02); optimum ~1e4 plausible half-widths outside the plausible box, with the
  training-set distances recomputed by the harness instead of by the repository's own metric function (C15); Python's `random` module as
  foreign history plus failed GP fits with single-start hyper-parameter optimisation (C07); the range of observations at a recorded point
  taken from the target wrapper's own record instead of the logger's return value (C19: my clause included the merged - tainted - value in
  the range); failing-input search for C05 by very noisy long runs with a single final sample; falsy option values `noise_size=0` (C20).
  One more false alarm of my own surfaced under `VERIF_SEED=1`: "a predictive SD of exactly 0 means the raw observation was used" (C13,
  round 4) is wrong for tiny `noise_size`, where the GP's posterior variance underflows to 0; the clause now also requires the value to
  BE the raw observation of that call.

* round 7: the caller's bound vectors used for a second construction (C08), the SD appended to the surrogate compared with the LOGGED SD
  instead of with the argument the caller handed over (C15: my clause trusted that argument), the ES box clause judged against a fresh
  transform (C18), the helper that maps given points into internal coordinates for integer-typed points (C11), the display levels - logging is
  no longer disabled in traced runs, its output goes to a null handler (C10, C09), every float-valued option supplied as a 0-d array with three
  ES iterations (C20; the documented run-time rescaling of seven options for noisy targets is exempt from "the instance keeps the supplied
  value"), `tol_mesh` given as exact powers of two (C13), foreign runs with other search settings (C07), objective values that are large
  relative to the late improvements (C04). Two side remarks of sub-agents about the unchanged tree were followed up and turned out to be
  genuine defects: unsigned-integer objective values (C04, fixed f57d12a) and the slice-sampler retry path under consecutive fit failures
  (C16, fixed ac3c6b0 and 14ec9cb). A third remark (plausible bounds stored under swapped keys in `optim_state`, which makes `poll_scale`
  negative for unbounded variables) is real but cancels out in every use (`poll_mads_2n` divides by what `_poll_step_` multiplies with; the
  ES-ell strategy only sees the sign of a symmetric draw) - no property is affected, nothing was changed.
  One more false alarm of my own (seeds 11 and 12 of a clean-tree sweep): a GENUINE `LinAlgError` inside `GP.fit` (not injected) was recorded as
  a successful attempt, so the model's attempt shapes disagreed - the tracer now records it as the oracle failure it is.

* round 8 (the agents were also asked to mention violations they notice on the UNCHANGED tree): the configured scalar confidence parameter of
  the search acquisition function, incl. 0 (C18), truthy / falsy spellings of `nonlinear_scaling` through the BADS constructor (C11), start
  points within half a coarse grid cell of an off-grid face with a thin feasible strip (C02), phased oracle scripts - a run of successes at
  the mesh cap, failures, successes below the cap (C13), hard bounds 1e12 times wider than the plausible box (C08), `tol_noise = 0` (C04),
  the selection's reference point right after a poll step (C15), the process-wide logger level as shared state and display levels in
  foreign histories (C07), the point the TARGET received in poll evaluations + long specified-noise runs down to a mesh of 2^-16 (C14), the
  accepted forms of `noise_nudge` (C16), a failing FIRST fit of the run (C09). Side remarks followed up and fixed as genuine defects:
  `hedge_gamma = 0` (23be530), a Python-number `sqrt_beta` (b90116b), `FunctionLogger.add` on an unknown-noise logger (3bbfbfb; the Lean
  logger model and three theorems were changed with it), an integer `poll_mesh_multiplier` (fd0f0fc). Looked at and NOT pursued (outside what the
  properties and the checks cover, named here so that they are not lost): `output_fcn` returning True at "init" -> `UnboundLocalError: msg` (the
  callback is only ever called once, an unfinished feature), `tol_fun = 0` -> `ZeroDivisionError` in the default expression of `hedge_beta`,
  `use_slice_sampler=True` with `tol_fun > 1` or `noise_nudge = [3, 0]` and four consecutive failed fits (nudged noise bound above the upper
  bound), objective values >= 1e200 (non-finite GP statistics), a target object that cannot be deep-copied (`OptimizeResult` copies `fun`),
  `np.longdouble` values beyond the double range, the non-functional `fun_values` option, `display` as process-wide logger state (only what
  is printed changes), log-coordinates for non-positive points outside the box (already excluded from C11's quantifier).

* round 9: a user-supplied `sqrt_beta` schedule, evaluated by the harness at t = func_count + 1 (C15), runs with `search_size_locked=False`
  long enough for the poll mesh to pass the initial search mesh + the meshes handed to the direction generator + an INDEPENDENT count of
  main-loop passes (C13: the tracer's per-iteration events hung on the refresh of the search bounds, which the seeded change skipped - the runs
  it broke were silently left out of the replay; now a mismatch between the two counts is a broken correspondence), options after runs in
  which GP fits AND the restart sampler fail (C20), invalid values inside one-element containers (C10), foreign constructions from hard bounds
  only (C07), `result.x0` when the caller re-uses its start vector (C19), a noisy target with `uncertainty_handling=False` given explicitly
  + "the noise test is made" (C05), one failed posterior update while a point is added to the surrogate, at each of the first 24 such updates
  (C04), a second `optimize()` call on the same object (C02), ES generations of more than 2048 candidates + "one acquisition value per
  candidate" (C18), `force_poll_mesh` with `search_mesh_expand` and the optimum on a face (C01). Side remark followed up and fixed:
  integer-typed / float32 SDs in the specified-noise merge (45db4f6). Not pursued: `poll_acq_fcn` is never read and the final acquisition
  call of `_search_step_` ignores a configured `sqrt_beta` (unimplemented options rather than broken properties), `init_sobol`'s seed depends on
  NumPy's print options (a caller who changes them between two seeded runs gets different runs; pybads itself never changes them),
  `OptimizeResult.update()` accepts unknown keys, `np.ma.masked` / `complex(1, 0)` are accepted as values, a multi-row `x0` is written to
  before a ValueError, passing another instance's `Options` object shares its `useroptions` set.

* round 10: what counts for the ES ranking is the parameter the USER configured, whatever reaches the acquisition function (C15), a
  (value, SD) pair from a target whose noise is not specified (C10), `stobads=True` without declared noise (C20), start points just beyond
  the 0.1% margin of a log-scaled variable + "the run starts on a point of the initial search grid" (C08), a constraint that excludes a face
  + the x of the returned `OptimizeResult` judged in addition to the optimizer's own final point (C02, C01 - a tidied-up copy is what the
  caller gets), every boolean option toggled with the optimum beyond a face (C01), `complete_poll` with the optimum in a corner + "one
  direction basis per poll step" (C14: a second basis started a new group in my per-poll analysis), a multi-start loop over the same bound
  vectors (C09), the mesh-tolerance stop judged against the USER's `tol_mesh` instead of the value the run derived from it (C13), int8 /
  int16 cost tables spanning more than half the type's range (C04), double refits under the slice sampler (C16).

* round 11: a start point BADS draws itself (x0 omitted) with the constraint boundary laid between the drawn point and its mesh point (C02),
  a twin instance constructed earlier from the very same bound arrays as foreign history (C07), partly non-finite start points - the Lean
  `specValid` now calls a definition invalid as soon as ONE coordinate is, whatever the other start coordinates are (C08: the broken
  correspondence alone had been reported, without a failing input), every selection made inside a poll step is centred on the incumbent (C15),
  large declared noise with dense runs of 3-4 failed fits under the slice sampler (C16), a user-configured strategy portfolio - the hedge's
  portfolio is compared with `options['search_method']` entry by entry (C18), `options['random_seed']` edited between construction and
  `optimize()` with the seed the run actually applied as the reference (C19), two seeded instances constructed and run interleaved (C20).
  Side remarks about the unchanged tree followed up and fixed as genuine defects (section 11, rows 30-34): float32 dyadic `tol_mesh` (9957c29),
  targets that modify their argument in place (e2129d2), an infinite start coordinate on an unbounded variable (5f4c4c8), a Cholesky failure
  in the FINAL posterior computation of the initial fit (0a5a128; new injection point `fault_where = "late"`), the slice sampler rejecting its
  start point on degenerate data (1237b39). Not pursued: a second `optimize()` call on the same object leaves stale tail entries in
  `iteration_history` and continues the first run's evaluation count (one call per object is the documented use; C19/C04 speak of "the run"),
  `(value, None)` / `(value, [sd])` / `(value, "a")` under specified noise raise TypeError (C10's assumption, stated in its evidence: only the
  SD faults the property names are demanded to be ValueErrors), `options['noise_final_samples']` goes negative when the budget is below the
  noisy initial design (no final samples are taken, `yval_vec` is None), the ES loop's random-search fallback discards earlier survivors
  (nothing is proposed then - the property's sentence is about the point that IS proposed), `lb_search` one ulp below `lb` for
  `poll_mesh_multiplier = 3` with hard bounds 1e6 plausible widths away at meshes below the spacing of `lb` (helper level only), the initial
  GP fit conditions on the whole log whatever `n_train_max` says (as modelled: `fevals`), `gp.s2` is an all-NaN column in unknown-noise mode,
  `np.seterr(divide="ignore")` is left set after the first poll step.

* round 12: start points handed over as float32 / float16 arrays with decimal bounds the type cannot represent (C01: the RETURNED x, cast back to
  that type, left the box), a start point BADS draws itself compared across equivalent spellings of the bounds, with the process-wide generator
  left in another state before every construction (C08), an earlier problem with its start point on a hard bound as foreign history (C07),
  a log-transformed variable next to an unbounded one in the same problem (C09), "the search step evaluates the point its strategy proposed" +
  bounds whose internal image lies on the search mesh with the optimum beyond the upper face (C18), stateful callable OBJECTS as target and
  constraint, used again after the run (C19), a hunt for singular direction bases among 30 000 random outcomes per scope for D = 4..6 and mesh
  ratios 2..4 in the failing-input search (C14: the scripted-RNG differential saw the regression at once, but as a broken correspondence only -
  the singular bases occur for 2e-4 of the outcomes at D = 5). Not pursued from the side remarks: `options={'useroptions': ...}` is accepted and
  the caller's set under that key is written to (an internal name of the `Options` class; rejecting it would also reject an `Options` object
  handed over as options), `'status'` is an accepted key of `OptimizeResult` that no run ever sets (the set of fields a run exposes is fixed all
  the same), a target holding a lock cannot be deep-copied into the result (TypeError at the end of `optimize()`), ten consecutive failures of one
  refit end in `UnboundLocalError` (beyond the property's "several times in a row"; the checks generate up to four), `accelerate_mesh_steps = 0`
  -> IndexError, `x0 = [1e308]` with plausible bounds +-1e-300 on an unbounded variable gives an infinite internal start point.
* round 13 (10 properties): deterministic targets that return their value as a NumPy unsigned / integer scalar in the C13 pool, with a new clause
  "the improvement of an evaluated poll point is the incumbent's value minus the value the TARGET returned there" and the whole-call replay
  (which derives every improvement from the logged values) on every C13 pool run (C13: differences of np.uint64 values wrapped around, a worse
  point doubled the mesh); poll-mesh bases other than 2 - the controller replay now works for any base, since the model computes on exponents -
  and the USER's `tol_mesh` as the reference of the termination-message clause (C03: `multiplier ** ceil(log2(tol_mesh))` is right only for
  base 2); the user's `noise_final_samples` as the reference for the number of final samples (C05: `val or default` dropped an explicit 0);
  transformers built with plausible bounds OMITTED from float64 arrays, compared with plausible = hard bounds (C11: aliased arrays were
  log-transformed twice); logs several times longer than `n_train_max` (C15: a different selection path for long logs returned the nearest set
  in log order). The other five (C01 ES-internal constraint calls outside the box, C12 merge under unspecified noise in `add`, C14 rounding of
  negative grid coordinates under `force_poll_mesh`, C19 StoBADS poll records the old observation, C20 case-insensitive option names) were
  caught at once with a failing input. Not pursued from the side remarks: `options['fun_values']` is unusable on HEAD (`range(len())`: the
  pre-evaluated-points feature was never ported; outside the twenty properties), `search_mesh_expand > 0` changes the mesh outside polls and
  `stobads` judges the poll on the last point (both outside the hypotheses the C13 theorems state: `expand = 0`, `stobads = false`,
  re-proved for the shipped defaults on every run), an `output_fcn` stopping at "init" leaves no message (UnboundLocalError), the process-global
  "BADS" logger level.

Two of those generator extensions exposed genuine defects on the pinned tree (section 11: `noise_size` with specified
noise; three boolean advanced options), which were repaired by `fix:` commits; one more (`fit_lik=False`) is a known finding.

What a seed "needs to manifest" is the agent's own analysis, condensed; "caught by" is from `seeded/<id>/eval.json`.

""" + table + """
Cross-detection (a seed seen by another property's check as well) was measured for a sample only; the table lists the
seed's own property. The quick tier was used throughout; the thorough tier runs the same clauses on ~10x more inputs.
"""
open(p, "w").write(s[:i] + text)
print("section 12 rewritten,", len(table.splitlines()) - 2, "seeds")
