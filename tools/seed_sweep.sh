#!/bin/bash
# usage: tools/seed_sweep.sh [parallel] [extra args for seed_eval.py, e.g. --no-write]
# Evaluates every seeded change (except those neutralised by a later fix) with its own property's quick check, each in a scratch worktree.
cd "$(dirname "$0")/.." || exit 2
P=${1:-4}; shift
ls -d seeded/C*/ | while read d; do d=${d%/}; [ -f $d/NEUTRALISED.md ] && continue; echo $d; done | \
  xargs -P $P -I{} sh -c 'n=$(basename {}); p=${n%%-*}; r=$(/venv/bin/python tools/seed_eval.py {} $p --wt '"$*"' 2>&1 | tail -1); echo "$n $r"'
