#!/usr/bin/env python3
"""Run ALL quick checks against one seeded change in a scratch worktree (experiment override VERIF_REPO) and write
seeded/<id>/matrix.json: per check, whether it raised a VIOLATION and whether with a failing input.

usage: tools/seed_matrix.py seeded/<id> [Cxx ...]"""
import json, os, subprocess, sys, time
HERE = os.path.dirname(os.path.dirname(os.path.abspath(__file__)))
d = os.path.abspath(sys.argv[1])
sid = os.path.basename(d)
pids = sys.argv[2:] or [c["property_id"] for c in json.load(open(os.path.join(HERE, "MANIFEST.json")))["checks"]]
wt = f"/tmp/sm_{sid}"
subprocess.run(["git", "-C", "/repo", "worktree", "remove", "--force", wt], capture_output=True)
subprocess.run(["git", "-C", "/repo", "worktree", "add", "-q", "--detach", wt, "HEAD"], check=True)
try:
    r = subprocess.run(["git", "-C", wt, "apply", os.path.join(d, "patch.diff")], capture_output=True, text=True)
    if r.returncode != 0:
        print("patch does not apply:", r.stderr); sys.exit(2)
    res = {}
    env = dict(os.environ, VERIF_REPO=wt)
    for pid in pids:
        t0 = time.time()
        p = subprocess.run([os.path.join(HERE, "check"), pid], capture_output=True, text=True, cwd=HERE, env=env)
        lines = [l for l in p.stdout.splitlines() if l.startswith(("VIOLATION", "  clause=", "  no longer checks", "MACHINERY"))]
        res[pid] = {"exit": p.returncode, "violation": any(l.startswith("VIOLATION") for l in lines),
                    "no_failing_input": any("no-failing-input-found" in l for l in lines), "lines": [l[:240] for l in lines][:4], "wall": round(time.time() - t0, 1)}
    out = {"what_was_run": "tools/seed_matrix.py: patch applied in a scratch worktree of /repo, every quick check run with VERIF_REPO pointing at it",
           "results": res,
           "failing_input": sorted(k for k, v in res.items() if v["violation"] and not v["no_failing_input"]),
           "correspondence_only": sorted(k for k, v in res.items() if v["violation"] and v["no_failing_input"]),
           "machinery_error": sorted(k for k, v in res.items() if v["exit"] == 2)}
    json.dump(out, open(os.path.join(d, "matrix.json"), "w"), indent=1)
    print(sid, "failing input:", out["failing_input"], "| correspondence only:", out["correspondence_only"], "| machinery:", out["machinery_error"], flush=True)
finally:
    subprocess.run(["git", "-C", "/repo", "worktree", "remove", "--force", wt], capture_output=True)
