#!/usr/bin/env python3
"""Regenerate MANIFEST.json from the table below (keeps it schema-valid at all times)."""
import json, os
HERE = os.path.dirname(os.path.dirname(os.path.abspath(__file__)))

NOTE = ("Trusted base: Lean 4.33.0 kernel (+ leanchecker in the thorough tier); axioms propext, Classical.choice, Quot.sound only "
        "(audited with #print axioms on every property theorem on every run; no sorry/admit/axiom/native_decide/bv_decide); Mathlib v4.33.0; "
        "the hand-written Lean model is tied to /repo by the correspondence check run by this command (differential execution of the model's "
        "executable definitions and the real code on the same inputs/operation sequences/run traces) and by the translator that regenerates "
        "lean/Generated/Defaults.lean from the option files; GP fit/predict, ES sampling, Sobol, NumPy RNG and the user's callables are oracle inputs "
        "(universally quantified in the theorems, observed in the correspondence). ")

CLAIMED = {
 "C17": dict(
   text="Theorems (Props/C17.lean) about Filter.filterCode, a literal transcription of contraints_check, for all candidate arrays, boxes, tolerances, logs and constraint functions: "
        "filter_in_box, filter_feasible, filter_pairwise_distinct_keys, filter_sub_input; the freshness clause is false of the code as it stands "
        "(filter_fresh_counterexample, filterCode_ignores_log) - known finding C17-fresh - with filter_fresh_partial and the documented behaviour filterSpec (filterSpec_fresh, "
        "filterSpec_complete, filterCode_eq_spec_of_fresh) proved. Correspondence: function-level differential on integer lattices (D<=2) and dyadic mesh points (D<=5), plus every "
        "contraints_check call of traced runs; the Lean predicates are evaluated on the implementation's outputs."
        " Whole call (Props/C17Opt.lean): search_set_distinct_feasible, poll_set_distinct_feasible, iteration_evaluates_filtered_rows, optimize_candidate_sets; pool runs with plain options replayed through whole.replay.",
   design="5 / C17", technique="Lean 4 theorems over a transcribed filter model + differential correspondence"),
}

CLAIMED.update({
 "C03": dict(
   text="Theorems (Props/C03.lean) about Ctl.step/Ctl.run, the model of the main loop's control skeleton, for every oracle stream of search/poll outcomes: budget_inv, total_calls_le, "
        "poll_iters_le, no_idle_iteration, terminates (explicit bound (nTry+1)(maxIter+budget)+1 by a lexicographic ranking function), msg_sound, fc_mono; hypotheses on option defaults re-proved "
        "from the regenerated Generated/Defaults.lean. Correspondence: every loop iteration of traced real runs is replayed through Ctl.step (counters, mesh exponents, termination, message compared); "
        "budget/count/message/idle predicates evaluated on the observed runs. Termination of the implementation additionally needs each oracle call to return (outside the model). "
        "End to end (Props/C03Opt.lean, model Optimize.lean of ONE WHOLE CALL of optimize(): initial phase + loop + final re-sampling): init_inv (the state in which the loop is entered satisfies the composed "
        "invariant), optimize_budget (the COMPLETE call sequence is no longer than max_fun_evals whenever the initial phase fits, func_count is its length), optimize_calls_ok, optimize_terminates, "
        "sobolCount_le / fits_of_room; every pool run is replayed through whole.replay and its complete sequence of target calls compared.",
   design="5 / C03", technique="Lean 4 termination/invariant proofs over a loop-control model + trace-refinement correspondence"),
 "C13": dict(
   text="Theorems (Props/C13.lean) about Ctl.mstep: poll_success_doubles, poll_failure_halves_or_quarters (exact quartering condition), msi_changes_only_in_poll, running_best_good_iff, "
        "msi_le_cap_and_ssi_le_msi (invariant over all reachable states), mesh_le_one, search_mesh_le_mesh, tolmesh_msg_sound; defaults hypotheses (multiplier 2, cap 0, ...) re-proved from the regenerated option values. "
        "Correspondence: mesh exponents after every poll and at every loop iteration of traced runs vs the model; the update rule evaluated on the observed per-evaluation improvements."
        " Whole call (Props/C13Opt.lean, model Optimize.lean): Reach (the states of the loop of one whole call, shown to be exactly the loop exits of oracle streams), optimize_mesh_inv, optimize_default_mesh_bounded, step_mesh_law / optimize_mesh_law (one equation: doubled up to the cap / halved / quartered / unchanged), optimize_tolmesh_sound, optimize_tolmesh_below_user_tol; every pool run replayed through whole.replay (mesh exponents, spree, exit message per iteration); deterministic poll improvements judged against the record of the target wrapper.",
   design="5 / C13", technique="Lean 4 invariant proofs over the mesh-update model + trace-refinement correspondence"),
 "C12": dict(
   text="Theorems (Props/C12.lean) about Log.record/call/add, the FunctionLogger state machine, for all operation sequences: record_cases (exhaustive case analysis), record_coords and runOps_coords_prefix "
        "(records appended in call order, coordinates never altered), record_frame (an operation at x changes no record at another point), norecord_changes_only_counts, value_exact, mergeRow_ok "
        "(precision-weighted mean with combined precision, by induction over the observations), merged_value_within_range, merge_hits_own_record, call_fc, call_error_kind. Correspondence: random operation "
        "sequences (repeats, partial coincidences, cache sizes 1-4, noise modes, transformer, add, invalid values) on the real FunctionLogger with the full state compared after every operation; the property's clauses "
        "are evaluated on the implementation's states against the abstract log kept by the harness.",
   design="5 / C12", technique="Lean 4 state-machine invariants + differential operation sequences"),
 "C09": dict(
   text="PARTIAL. Execution of valid problems in every mode (trace pool + generators forcing the rare paths the property names: all ES candidates infeasible, repeats under specified noise, NaN GP prediction at the incumbent, "
        "budgets at the edge of the initial design, degenerate targets) - any exception escaping optimize() is a failing input; definedness theorems for the modelled mechanisms in Props/C09.lean. "
        "No model can prove absence of internal errors in all of pybads' NumPy code; the unmodelled part is covered only as far as runs are executed.",
   design="5 / C09", technique="Lean 4 definedness model of named rare paths + forced-path execution (partial)"),
 "C01": dict(
   text="Theorems (Props/C01.lean): inverse_in_orig_box (the original-space image of ANY internal point lies in the original hard box - clamp after an arbitrary ginv), snap_close, search_box_inside_hard_box, "
        "search_box_nonempty, gridStart_ok_or_error, filter_in_box (C17), and pipeline_calls_in_box: for every sequence of candidate sets and picks (all seeds/landscapes/ES/poll/Sobol outcomes) every evaluated internal point "
        "lies in [lb, ub]. Correspondence: call provenance of traced runs replayed through Pipe.step (each evaluated point is the start point, a row of the model's filtered set, or an earlier point; search-box bounds recomputed "
        "by the model), x = clamp(ginv(u)) checked on every call; box predicates (Lean inBoxB) on every target call, constraint call, log row and returned solution."
        " Whole call (Props/C01Opt.lean): optimize_calls_in_box, optimize_logged_points_in_box, optimize_returned_in_box, optimize_returned_x_in_orig_box, optimize_calls_x_in_orig_box on the whole-call model; pool runs with plain options replayed through whole.replay.",
   design="5 / C01", technique="Lean 4 invariant over an oracle-driven pipeline model + provenance trace refinement"),
 "C02": dict(
   text="Theorems (Props/C02.lean): filtered_feasible, pipeline_calls_feasible (for every sequence of candidate sets/picks and every deterministic constraint oracle, every evaluated point is feasible), construct_ok, "
        "construct_rejects_infeasible_start, run_from_construct_feasible. Correspondence: provenance replay through Pipe.step with the constraint answers recorded from the run; the user's constraint is re-asked at every point passed "
        "to the target and at the returned x; construction with start points infeasible before/after snapping must raise ValueError with zero target calls."
        " Whole call (Props/C02Opt.lean): optimize_calls_feasible, optimize_returned_feasible, infeasible_start_not_initOK on the whole-call model; pool runs with plain options replayed through whole.replay.",
   design="5 / C02", technique="Lean 4 invariant over the pipeline model + provenance trace refinement"),
 "C14": dict(
   text="Theorems (Props/C14.lean), for every dimension and every outcome of the generator's random choices: dirs_det (det = sign(perm) * prod(+-nmax), via Mathlib's determinant of permuted lower-triangular matrices), "
        "dirs_nonsingular, dirs_positive_spanning (every rational vector is a non-negative combination of the 2n directions), dirs_entries_bounded, dirs_default_are_signed_unit_vectors, pollLoop_nodup_sub "
        "(polled points pairwise distinct, at most the candidate count), basis_length = 2n, poll_points_form. Correspondence: poll_mads_2n under a scripted random source (exhaustive for the small scopes listed in the evidence, "
        "sampled up to D=6, mesh ratios 1,2,4) vs Poll.basis; Lean predicates on the implementation's basis; every poll step of traced runs (points = incumbent + mesh*direction, each direction once, <= 2D). "
        "Inside the composed whole-run model (Props/C14Run.lean): when the poll set handed to an iteration is the generator's, every point the iteration evaluates is incumbent + mesh_size * (a row of the basis), none twice, at most 2D, "
        "whatever the filter drops, the acquisition order and the budget do (poll_step_form, poll_step_nodup, poll_step_at_most_2D; run_polls_form for every iteration a run reaches)."
        " Whole call (Props/C14Opt.lean): optimize_poll_form / optimize_polls_form - the poll form at every iteration of the loop of one whole call; pool runs with plain options replayed through whole.replay.",
   design="5 / C14", technique="Lean 4 (Mathlib determinant) proof for all dimensions/draws + scripted-RNG differential"),
 "C04": dict(
   text="Theorems (Props/C04.lean) about Inc.step for every sequence of evaluated points and returned values (any target incl. plateaus/ties, any candidate generation): inc_init, inc_search, inc_poll, inc_reachable "
        "(the incumbent is an evaluated pair and a minimum of everything evaluated), result_truthful, hist_fval_antitone, never_worse_than_start (per-run clause of C06); default-policy hypotheses re-proved from the regenerated options. "
        "Correspondence: every search/poll step of deterministic traced runs replayed through Inc.step; result clauses evaluated against the target wrapper's own (x, y) call log. "
        "Composed models: DetRun (C04Run.lean: det_run_spec, det_terminates, ...) and the whole-call model Optimize.lean under a deterministic oracle (C04Opt.lean: det_optimize_best - the returned fval is the value "
        "observed at the returned point and NO evaluation of the run, initial design included, is lower; nothing is re-sampled).",
   design="5 / C04", technique="Lean 4 invariant by induction over evaluations + trace-refinement correspondence"),
 "C05": dict(
   text="Theorems (Props/C05.lean): final_point_is_iterate, argminFrom1_spec (first minimiser of the quantile values over iterates 1..), fval_is_mean, yvec_single_supplemented, yvec_several, sqDev_nonneg, noise_detected_iff, "
        "identical_values_not_noisy; with C19's run_pinv the returned point is a point evaluated earlier. Correspondence: incumbent/history/final-estimate bookkeeping of every traced run replayed through Noisy.iterStep / finalChoice / yvalVec "
        "with the run's oracle values; clauses (last calls at returned x, yval_vec, mean, SEM, ysd_vec, target_type, noise detection rule) evaluated on the run's call log. Budget interplay is C03's total_calls_le. "
        "End to end on the whole-call model (C05Opt.lean): final_calls_at_returned_x (the call sequence ends with exactly nfsEff unrecorded calls at the returned point), returned_x_evaluated, yvec_spec, "
        "deterministic_untouched, noisy_detected; replayed on every pool run through whole.replay (complete call sequence, yval_vec, func_count).",
   design="5 / C05", technique="Lean 4 theorems over the final-selection/estimate model + trace-refinement correspondence"),
 "C19": dict(
   text="Run level (Props/C19.lean): for every sequence of candidates, GP estimates, re-estimated history values and final quantile values: iterStep_pinv / run_pinv (u = u_best at iteration boundaries; the incumbent pair and every "
        "recorded iterate are pairs the log returned together), reEvalSwap_pinv, finalChoice_pinv (the returned point is a recorded iterate with its own value). Container level (Props/C19Container.lean): get_record, record_frame, "
        "record_errors, record_keys, res_set_unknown, res_get_agree, res_set_get. Correspondence: run-level replay through Noisy.iterStep, clauses on the call log (under specified noise: within the range of the observations at x, "
        "via C12's merged_value_within_range); container differential with mutable values mutated after recording (aliasing is heap behaviour: tested, not proved)."
        " Whole call (Props/C19Opt.lean): optimize_recorded_iterates_observed, optimize_pairs_called, optimize_recorded_iterates_called, optimize_returned_called, optimize_returned_is_recorded_iterate, optimize_returned_is_incumbent, optimize_hist_length_while_running, optimize_func_count_final; every pool run replayed through whole.replay.",
   design="5 / C19", technique="Lean 4 invariants (run-level model + container model) + trace refinement and container differential"),
 "C08": dict(
   text="Theorems (Props/C08.lean) about Val.validate, a bit-exact transcription of BADS.__init__/_bounds_check_ on IEEE values (binary64 rounding Fl.rn of the two arithmetic expressions): checkCore_accepted / validate_norm "
        "(an accepted definition passed every test; normalised to lb<=plb<pub<=ub, no half-bounded variable), and one rejection theorem per kind of invalid definition named by the property (rejects_no_dimension, "
        "rejects_mismatched_dimensions, rejects_nonfinite_plausible, rejects_unordered incl. equal plausible / identical hard / NaN bounds, rejects_x0_outside, rejects_half_bounded, rejects_indistinguishable). The converse is false "
        "of the code (valid_but_rejected_counterexample; known findings C08-margin-box, C08-ulp-bounds), so the iff is claimed only as validate_ok_iff_valid_partial. Correspondence: per-coordinate product of {absent, +-inf, NaN, ordered "
        "finite values, values within rounding distance} for D<=2 (sampled D=3), dimension mismatches, equivalent spellings; BADS(...) verdict and normalised problem vs the model (exact), and vs Val.specValid, the property's own sentence "
        "(failing-input detector); zero target calls at construction; Fl.rn validated against Python floats.",
   design="5 / C08", technique="Lean 4 theorems over a bit-exact validation model + (near-)exhaustive differential"),
 "C11": dict(
   text="Exact-arithmetic theorems (Props/C11.lean) for an arbitrary scale pair (phi, psi) with phi strictly increasing on its domain and psi its inverse (identity instance proved; log/exp on the positives is the intended reading): "
        "roundtrip (inverse(call x) = x inside the hard bounds), call_mono, call_strictMono_inside, inverse_mono, call_plb_pub (-1/+1), call_range / inverse_range (outputs never leave the box for ANY input and ANY inner map), "
        "applyLog_iff (decision rule, with binary64 rounding of pub/plb), affine_otherwise. Correspondence: real VariableTransformer on random valid bound sets (1e-12..1e12, infinite, mixed, decade-edge) vs Tr.* - flags exact through Fl.rn, "
        "affine part and clamps by the model, numpy log/exp harness-side; the property's clauses are evaluated on the implementation's own outputs. The floating-point round-trip bound (1e-9 of the width) is measured, not proved.",
   design="5 / C11", technique="Lean 4 theorems over an abstract strictly-monotone scale + differential with measured float error"),
 "C10": dict(
   text="Theorems (Props/C10.lean) about Log.call / Log.runCalls for every position k of the faulty call and every fault kind: call_invalid (error table: the target's own exception for a raise, ValueError for every invalid value), "
        "call_valid_ok (with the invariant that logged points are pairwise distinct under specified noise), stops_at_first_fault (the first invalid outcome ends the run with its own error, at call k), fc_counts_valid_only, "
        "failed_call_logs_nothing. Correspondence: fault enumeration on real runs - the target misbehaves at call k (every phase; every index in the thorough tier) in each fault kind and noise mode; exception type, no further target call, "
        "func_count = k, log unchanged by the failed call, and the prefix equal to the clean run's.",
   design="5 / C10", technique="Lean 4 theorems over the logger state machine + fault enumeration at every call index"),
 "C15": dict(
   text="Theorems (Props/C15.lean) for every log state, distance vector and size option: neighbors_sub_log (every training triple is a log row; noise enters as the logged SD squared), ranked_sorted, neighbors_nearest, ranked_perm, "
        "ntrain_bounds, neighbors_length, fevals_variance, addPoint_is_last, lcb_def, lcb_antitone_in_sd, lcb_monotone_in_mean. Correspondence: every training-set selection (incl. history re-evaluation), posterior update and "
        "acquisition call of the traced runs vs GP.neighbors on the same log snapshot and distances; clauses evaluated on the implementation's arrays; beta_t recomputed from the documented schedule. "
        "Over whole runs (Props/C15Run.lean): the surrogate's training set as a state machine under initial training / local refits with retries / posterior updates (srun_train, select_keeps_selected_set, srun_real, "
        "srun_attempts_agree), and the logger model of C12 composed with it (train_at_evaluated_points in every noise mode; train_sub_log_partial and train_sub_log_unspecified_noise: every training triple is a log record as long as "
        "nothing is merged; merged_add_counterexample = known finding C15-merged-add as a theorem about the model; reselect_restores). Correspondence: gp.run and sur.jrun replay the event sequence of every pool run, "
        "training set / log size / func_count compared after every event, all fit-attempt sizes in order.",
   design="5 / C15", technique="Lean 4 theorems over the training-set selection model + per-event differential on traced runs"),
 "C16": dict(
   text="Theorems (Props/C16.lean): robustFit_shapes_agree (X, y and the noise vector have the same length at every retry), robustFit_defined (k consecutive failures then a success, fewer than 10 attempts: returns after k+1 attempts), "
        "initFit_terminates, updateFallback_restores, guarantees_survive_faults (C01/C03/C04 theorems hold verbatim: GP results are universally quantified oracle inputs there). Correspondence: LinAlgError injected into GP.fit at "
        "schedules of invocation indices (single, 2-4 consecutive, scattered; every index in the thorough tier), deterministic and noisy modes; the run must complete, attempt shapes vs the model, and the C01/C03/C04 run-level checks are "
        "re-run on every faulted run. Failures are injected at the start of a fit and (fault_where = late) in the final posterior computation of a fit; constant objectives, slice-sampler restarts, large declared noise."
        " Whole call (Props/C16Opt.lean): whole_call_guarantees_survive_fit_failures (budget, honest count, box and feasibility of every call, termination, mesh invariant, returned point evaluated, for every oracle stream); the completed runs WITH injected fit failures are replayed through whole.replay.",
   design="5 / C16", technique="Lean 4 theorems over the retry model + fault-schedule enumeration on real runs"),
 "C18": dict(
   text="Theorems (Props/C18.lean): es_returns_argmin (the proposed point is a surviving candidate of some generation with minimal acquisition value, for every population size), es_empty, mask_monotone, mask_le_index "
        "(first offspring from the best parent, unit steps, mask[k] <= k - for arbitrary final weights), hedge_sum_one, hedge_ge_floor, choose_defined / hedge_draw_defined, search_step_at_most_one_call. Correspondence: the real "
        "selection mask vs Srch.selectionMask for every (mu, lambda) up to 300 (thorough) and (2048, 2048); every ES call of traced runs (all survivors of all generations vs the proposed point); hedge probabilities of every search step. "
        "Mask validity (length, indices < mu) is exhaustively tested up to the bound, not proved."
        " Whole call (Props/C18Opt.lean): search_evals_at_most_one, search_eval_is_pick, search_eval_in_search_set, no_search_no_eval, iteration_logs_search_eval_once, optimize_search_step; pool runs with plain options replayed through whole.replay.",
   design="5 / C18", technique="Lean 4 theorems over the accumulate/select, mask and hedge models + exhaustive mask sweep and trace differential"),
 "C20": dict(
   text="Theorems (Props/C20.lean) for every pair of option files, evaluation oracle, dimension and override set: user_wins, default_otherwise (the default expression evaluated for the instance's own D), env_has_user_values "
        "(dependent defaults see the user's values), unknown_rejected, loadFile_protected; shipped_files_wellformed re-proved from the regenerated name lists. Correspondence: every option name of both ini files overridden at least once "
        "(random subsets, D in 1..6): BADS.options vs Opt.load's provenance terms, defaults evaluated independently from the ini text; unknown names; multi-instance construct/run orders; caller's dict and arrays before/after. "
        "Aliasing and the process-global D cell are heap/runtime behaviour: covered by the differential, not by a theorem.",
   design="5 / C20", technique="Lean 4 theorems over the option-loading model + per-name override differential and multi-instance orders"),
 "C07": dict(
   text="PARTIAL. Theorems (Props/C07.lean) for an arbitrary generator, arbitrary programs and arbitrary foreign activity: run_independent_of_history, x0_draw_depends_only_on_seed, optimize_depends_only_on_seed, and three counterexample "
        "theorems showing that both seeding points (construction and optimize) and the seed itself are needed. Correspondence: history pairs on the real code (fresh process vs foreign history before construction and between construction "
        "and run), every evaluated point and the result compared bit for bit; the seeding discipline the model assumes (first generator use in __init__ and optimize() is seed(s)) is observed. Entropy outside NumPy's global generator "
        "is not in the model; those pairs are testing.",
   design="5 / C07", technique="Lean 4 theorem over an abstract generator/process-history model + bitwise history-pair differential (partial)"),
})
CLAIMED["C09"]["text"] = ("PARTIAL. Definedness theorems (Props/C09.lean) for the rare internal paths the property names, in the definedness model Defined.lean and the models of C10/C16/C18: es_loop_defined, es_empty_proposes_nothing, "
    "record_value_kind, gp_stats_defined, history_record_defined, train_opts_defined, target_fallback_defined, result_defined, hedge_choice_defined, sample_prior_defined, refit_retries_defined, valid_call_accepted. "
    "Execution: trace pool + generators forcing those paths (all ES candidates infeasible, repeats under specified noise, NaN GP prediction at the incumbent, budgets at the edge of the initial design, degenerate targets); any exception "
    "escaping optimize() on a valid problem is a failing input; the model's ok/error verdict is compared with the code at every observed instance of a modelled mechanism. No model proves absence of internal errors in all of pybads' NumPy "
    "code: the unmodelled part is covered only as far as runs are executed.")

NA = {
 "C06": "population-level statistical guarantee about floating-point GP regression and random ES sampling; no executable Lean model expresses it (DESIGN.md section 6); its per-run clause is proved and checked under C04",
}

ALL = [f"C{i:02d}" for i in range(1, 21)]

def main():
    checks = []
    for pid in ALL:
        if pid not in CLAIMED:
            continue
        c = CLAIMED[pid]
        checks.append({
            "property_id": pid,
            "quick_cmd": f"./check {pid} --tier quick",
            "thorough_cmd": f"./check {pid} --tier thorough",
            "evidence_file": f"evidence/{pid}.json",
            "replay_cmd_template": f"./check {pid} --replay {{path}}",
            "engine": "lean-proof+correspondence",
            "level_claimed": {"category": "proof", "text": c["text"], "design_ref": c["design"]},
            "level_note": NOTE + c.get("note", ""),
            "technique": c["technique"],
        })
    na = []
    for pid in ALL:
        if pid in CLAIMED:
            continue
        na.append({"property_id": pid, "reason": NA.get(pid, "check not built yet in this session (see DESIGN.md build order); not claimed")})
    m = {
        "version": 1,
        "setup_cmd": "cd lean && lake build BadsModel Generated Driver driver BadsProofs",
        "hooks": {
            "guard": "PYBADS_VERIF",
            "enable": "checks set PYBADS_VERIF=1 in their own process before importing pybads from /repo's working tree (pure Python, nothing to rebuild)",
            "baseline_off_cmd": "cd /repo && env -u PYBADS_VERIF /venv/bin/python -m pytest -ra -q -p no:cacheprovider --timeout=900 --continue-on-collection-errors",
            "source_commits": json.load(open(os.path.join(HERE, "tools", "hook_commits.json"))) if os.path.exists(os.path.join(HERE, "tools", "hook_commits.json")) else [],
            "add_only": True,
        },
        "engines": [{"name": "lean-proof+correspondence", "path": "check", "serves_properties": sorted(CLAIMED),
                     "kind_free_text": "Lean 4 theorems about hand-written executable models (lean/BadsModel, proofs in lean/BadsProofs/Props) + Python correspondence harness (harness/) driving the compiled model driver and the real pybads code"}],
        "checks": checks,
        "not_applicable": na,
        "notes": "Exit 0 = held; exit 1 + 'VIOLATION property=<id> replay=<path>' (ending in no-failing-input-found when only a proof obligation or the correspondence broke); exit 2 = machinery error/timeouts. VERIF_SEED seeds every random choice; VERIF_TIER overrides --tier. Known findings: known_findings.json.",
    }
    with open(os.path.join(HERE, "MANIFEST.json"), "w") as f:
        json.dump(m, f, indent=1)
    print("claimed:", sorted(CLAIMED), "n/a:", len(na))

if __name__ == "__main__":
    main()
