#!/bin/bash
# usage: tools/harmless_eval_wt.sh <patch.diff> <name>  - like harmless_eval.sh but in a scratch worktree (VERIF_REPO), so several can run at once
p=$1; name=$2; wt=/tmp/hw_$name
git -C /repo worktree add -q --detach $wt HEAD || exit 2
git -C $wt apply "$p" || { echo "PATCH DOES NOT APPLY: $p"; git -C /repo worktree remove --force $wt; exit 2; }
bad=0
for c in C01 C02 C03 C04 C05 C07 C08 C09 C10 C11 C12 C13 C14 C15 C16 C17 C18 C19 C20; do
  out=$(VERIF_REPO=$wt VERIF_OUT=${wt}_out /verif/check $c 2>&1 | grep -v "^KNOWN-FINDING")
  if ! echo "$out" | grep -q "^OK property=$c"; then bad=$((bad+1)); echo "--- $c on $name"; echo "$out" | cut -c1-500 | tail -6; fi
done
git -C /repo worktree remove --force $wt; rm -rf ${wt}_out
echo "== $name: $bad of 19 checks alarmed"
