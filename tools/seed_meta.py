#!/usr/bin/env python3
"""Write seeded/<id>/meta.json from confirm.json, eval.json and the first lines of notes.md."""
import json, os, glob, re
HERE = os.path.dirname(os.path.dirname(os.path.abspath(__file__)))
NEEDS = {
 "C01-a": "two cooperating sites (transformer clamp skipped and contraints_check bypassed when any bound is infinite); a mixed bounded/unbounded box with the optimum on or beyond a finite bound",
 "C02-a": "initial design filtered BEFORE snapping to the grid; needs a design point that snapping carries across the constraint boundary (thin set, unlucky offset or a coarse search grid)",
 "C03-a": "reserve computed from recorded rows instead of target calls; auto-detected noise and a budget within 9 of the noisy initial design",
 "C04-a": "initial incumbent chosen among the Sobol points only (x0 left out); a start point better than the whole initial design and never beaten later",
 "C05-a": "single final sample supplemented from optim_state['yval'] instead of the iterate's yval; noise_final_samples = 1 and a final choice different from the last accepted incumbent",
 "C07-a": "re-seeding moved after _init_mesh_; a noisy target drawing from np.random AND generator use between construction and optimize()",
 "C08-a": "half-bounded test compares counts of infinite bounds; D >= 2 with equally many variables bounded only below and only above",
 "C09-a": "length-scale prior computed from the strict upper triangle; a training set with a single observation (all initial design points infeasible)",
 "C10-a": "validation moved into the recording branch of _record; an invalid VALUE (not an exception) at an unrecorded call (noise test, final re-sampling)",
 "C11-a": "inverse map clamps the input instead of the output; a point at/beyond the image of a non-round bound, checked exactly",
 "C12-a": "merge row looked up on the element-wise match matrix; specified noise, an exact repeat, and an earlier record sharing one coordinate",
 "C13-a": "stall-acceleration block de-indented so that it also runs after successful polls; a noisy run, iteration > 3, a poll that succeeds while the history is stalling",
 "C14-a": "poll centred at optim_state['u'] instead of self.u; a noisy run in which the incumbent was swapped back to an earlier iterate before a poll",
 "C15-a": "training values read from Y_orig; specified noise and a merged repeat that later enters a training set",
 "C16-a": "retry slices the source gp's noise vector; specified noise and >= 3 consecutive failures within a local refit",
 "C17-a": "round-off slack in the drop-outside test uses one global scale; a mixed bounded/unbounded box (infinite slack) and a poll within one mesh step of a finite bound",
 "C18-a": "break on an empty ES generation leaves the pre-allocated result uninitialised; a constraint that rejects every candidate of generation 0",
 "C19-a": "yval not reloaded when the incumbent is swapped for an earlier iterate; a noisy run with a swap followed by an iteration that does not move",
 "C01-b": "copy-paste slip in _update_search_bounds_ (upper search bound no longer pulled back inside); an optimum on/beyond an upper bound whose internal image is off the dyadic grid, at a mesh where it rounds up",
 "C02-b": "constraint test C <= 0 replaced by (C < 0) | isclose(C, 0): violations in (0, 1e-8] pass; a constraint reporting violations as small numbers",
 "C03-b": "max_iter test without the -1; search_n_try of 0 or 1 (search and poll in the same loop pass)",
 "C04-b": "_update_incumbent_ skips moves with np.allclose(u_new, u_best); a strictly better point within ~1e-5 relative of the incumbent (fine meshes, incumbent away from the centre)",
 "C05-b": "noise test via np.isclose (default rtol 1e-5); auto-detected noise on a target whose value is large relative to its noise",
 "C07-b": "seed guard 'if random_seed:'; random_seed = 0",
 "C08-b": "in-place masked write keeps an integer x0's dtype; x0 given as integers on/near a hard bound",
 "C09-b": "np.append without axis=0 flattens the noise cache S on growth; specified noise and more recorded points than cache_size, then one more search/poll evaluation",
 "C10-b": "exception context appended to err.args[0]; a target exception with empty args",
 "C12-b": "duplicate detection with np.isclose; two distinct points agreeing to ~1e-5 relative, specified noise or an unrecorded evaluation",
 "C13-b": "stall test reads optim_state['fval'/'fsd'] (stale in noisy modes after re-estimation); noisy run, accelerate_mesh, failed poll at iteration > 3 after a re-estimate",
 "C14-b": "force_poll_mesh snaps poll points to the poll mesh instead of the search mesh; option force_poll_mesh=True",
 "C15-b": "X_max_idx clamped at cache_size - 1 (never updated on growth); more recorded points than cache_size",
 "C16-b": "f-string formatting of an ndarray in the post-retry warning; option gp_warnings=True and a failed refit attempt",
 "C17-b": "initial design filtered before snapping to the grid; a coarse search grid so that two design points snap to the same node / across the constraint",
 "C18-b": "search bounds rounded with the previous iteration's search mesh; non-dyadic bounds and a mesh re-expansion followed by a search in the same iteration",
 "C19-b": "target_type taken from the logger's construction-time flags; auto-detected noise",
 "C20-b": "memoised default evaluation keyed by (file, D); two instances with the same D and different tol_fun (dependent defaults tol_noise, hedge_beta)",
 "C20-a": "VariableTransformer keeps references to the caller's arrays and log-transforms them in place; bounds given as arrays with a log-transformed coordinate",
 "C01-c": "inverse_transf clamps in internal coordinates before ginv instead of clamping ginv's output; a log-transformed coordinate whose bound's image rounds outward under exp (e.g. lb=0.01, plb=0.1, pub=1, ub=10) and a point on that bound",
 "C02-c": "early return for one-row candidate sets placed before the non-box-constraint stage of contraints_check; a candidate set with exactly one row (fun_eval_start=1, a 1-D poll next to a bound, a single ES survivor)",
 "C03-c": "search_count incremented only after a search evaluation; an empty search set at a search that is not the first of its round (candidate generator scripted to propose nothing from the K-th search on)",
 "C04-c": "self.fsd = 0.0 indented under 'noise_size is None'; a deterministic target with options['noise_size'] set explicitly (fsd stays NaN, no improvement ever accepted)",
 "C05-c": "capped number of final samples kept in optim_state but the yval_vec/ysd_vec buffers allocated with the uncapped option; a budget leaving fewer than noise_final_samples evaluations after the initial design",
 "C07-c": "evaluated option files cached per (file, D): tol_fun-dependent defaults (hedge_beta, tol_noise) inherited from an earlier BADS object of the same D; a history constructing such an object right after one of another D",
 "C08-c": "effective upper bound for ub == 0 loses its minus sign; a hard upper bound exactly 0 and a start point on it or within the 0.1% margin",
 "C09-c": "poll loop 'tidied': the break on an empty polling set dropped; a non-box constraint rejecting all 2D poll points (narrow feasible band/ball around the incumbent)",
 "C10-c": "search step wrapped in try/except (LinAlgError, ValueError) re-raising only tagged target errors; specified noise and a target returning a non-pair at a call issued by a search step",
 "C11-c": "internal bounds taken from the finite stand-ins of the constructor's self-test (+-1/sqrt(eps), 1e6 for log); an infinite hard bound and a point / plausible bound beyond ~6.7e7",
 "C12-c": "_expand_arrays rebuilds Y from Y_orig on growth; specified noise, a merged repeat, then a cache growth",
 "C13-c": "certain_good_poll uses >= instead of >; a poll whose best improvement equals the sufficient-improvement threshold exactly (oracle-scripted tie)",
 "C14-c": "n_max loses its rounding in poll_mads_2n; a non-integer mesh ratio (poll_mesh_multiplier 1.5 with a fixed search mesh)",
 "C15-c": "_robust_gp_fit_ returns its working copy: after >= 2 consecutive fit failures the thinned training set escapes; a local refit with two LinAlgErrors in a row",
 "C16-c": "fourth attempt of the initial-training ladder starts from a 1-D zero vector (IndexError in gpyreg, not caught); exactly three consecutive failures of the initial fit",
 "C17-c": "poll filter call for force_poll_mesh passes non_box_cons in the proj position; force_poll_mesh=True with a non-box constraint",
 "C18-c": "exploration floor mixed into the unnormalised softmax weights; a portfolio of three or more strategies with two close leaders and a laggard",
 "C19-c": "seed guard 'if random_seed:' in _init_random_seed_; random_seed = 0 (result reports None)",
 "C20-c": "x0 passed to _bounds_check_ without a copy and clipped in place; x0 given as a float64 array on / within 0.1% of a hard bound (or as a row of a start matrix)",
}
for d in sorted(glob.glob(os.path.join(HERE, "seeded", "*"))):
    sid = os.path.basename(d)
    pid = sid.split("-")[0]
    conf = json.load(open(os.path.join(d, "confirm.json"))) if os.path.exists(os.path.join(d, "confirm.json")) else {}
    ev = json.load(open(os.path.join(d, "eval.json"))) if os.path.exists(os.path.join(d, "eval.json")) else {}
    files = re.findall(r"^\+\+\+ b/(\S+)", open(os.path.join(d, "patch.diff")).read(), flags=re.M)
    meta = {
        "id": sid, "breaks_property": pid, "origin": "independent sub-agent given only the property text and a scratch worktree of /repo",
        "files_touched": files, "needs_to_manifest": NEEDS.get(sid, ""),
        "confirmed": {"what_was_run": "tools/seed_collect.sh: in a fresh scratch worktree of /repo: demo.py on HEAD (must exit 0), git apply patch.diff, demo.py (must exit 1), "
                                      "baseline pytest command (must pass); worktree removed afterwards", **conf},
        "checks": {"what_was_run": "tools/seed_eval.py: git -C /repo apply patch.diff; ./check <id> --tier quick for the listed checks; git -C /repo checkout -- .",
                   "detected_by": ev.get("detected_by"), "detected_with_failing_input": ev.get("detected_with_failing_input"), "checks_run": sorted((ev.get("results") or {}).keys())},
    }
    json.dump(meta, open(os.path.join(d, "meta.json"), "w"), indent=1)
    print(sid, conf, ev.get("detected_by"))
