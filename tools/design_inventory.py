#!/usr/bin/env python3
"""Rewrite the bullet list of DESIGN.md section 10.4 (theorem inventory) from the Lean sources."""
import os, re, subprocess, sys
HERE = os.path.dirname(os.path.dirname(os.path.abspath(__file__)))
p = os.path.join(HERE, "DESIGN.md")
s = open(p).read()
inv = subprocess.run([sys.executable, os.path.join(HERE, "tools", "inventory.py")], capture_output=True, text=True).stdout.strip()
n = sum(int(m) for m in re.findall(r"; (\d+) theorems\)", inv))
a = s.index("### 10.4 Theorem inventory")
b = s.index("Partial / negative results kept visible")
head = f"### 10.4 Theorem inventory\n\n(`tools/inventory.py` prints this from the sources; {n} theorems, axioms ⊆ {{propext, Classical.choice, Quot.sound}}, audited by `#print axioms` on every run.)\n\n"
open(p, "w").write(s[:a] + head + inv + "\n\n" + s[b:])
print(n, "theorems")
